package demo

import (
	"testing"
	"time"

	"git.sr.ht/~rockorager/vaxis"
)

// The application asks for the cursor position; the terminal's reply takes
// longer than CursorPosition's 50 ms timeout (e.g. a 60 ms ssh round trip).
// The reply is a reply to Vaxis's own query and must be consumed internally;
// the user pressed nothing.
func TestLateCursorPositionReply(t *testing.T) {
	vx, f := start(t)
	defer vx.Close()

	f.mu.Lock()
	f.noCPR = true // the fake answers by hand below
	f.mu.Unlock()

	go func() {
		time.Sleep(80 * time.Millisecond)
		f.inject("\x1b[5;7R") // the reply, 80 ms after the query
	}()
	r, c := vx.CursorPosition()
	t.Logf("CursorPosition() -> %d,%d (timed out)", r, c)
	evs := drain(vx, 200*time.Millisecond)
	t.Logf("events delivered to the application: [%s]", show(evs))
	for _, ev := range evs {
		if k, ok := ev.(vaxis.Key); ok {
			t.Errorf("the late cursor position report CSI 5;7R was delivered to the application as a key press: %s (keycode %d, modifiers %d)", k.String(), k.Keycode, k.Modifiers)
		}
	}
}

// The converse: with a query outstanding, the user's Shift+F3 (xterm legacy
// CSI 1;2R) is taken for the reply, and the real reply then surfaces as a key.
func TestShiftF3WhileQueryOutstanding(t *testing.T) {
	vx, f := start(t)
	defer vx.Close()

	f.mu.Lock()
	f.noCPR = true
	f.mu.Unlock()

	go func() {
		time.Sleep(5 * time.Millisecond)
		f.inject("\x1b[1;2R") // user: Shift+F3
		time.Sleep(5 * time.Millisecond)
		f.inject("\x1b[5;7R") // terminal: cursor at row 5, col 7
	}()
	r, c := vx.CursorPosition()
	t.Logf("CursorPosition() -> %d,%d (terminal said 4,6 zero-based)", r, c)
	evs := drain(vx, 200*time.Millisecond)
	t.Logf("events delivered to the application: [%s]", show(evs))
	if r != 4 || c != 6 {
		t.Errorf("CursorPosition returned %d,%d, the terminal reported 4,6", r, c)
	}
	ok := false
	for _, ev := range evs {
		if k, isKey := ev.(vaxis.Key); isKey && k.Keycode == vaxis.KeyF03 && k.Modifiers == vaxis.ModShift {
			ok = true
		}
	}
	if !ok {
		t.Errorf("the user's Shift+F3 was not delivered")
	}
}
