package demo

import (
	"testing"
	"time"

	"git.sr.ht/~rockorager/vaxis"
)

// Legacy encoding of Alt+<non-ASCII letter> (xterm metaSendsEscape, foot,
// alacritty, ...): ESC followed by the UTF-8 of the letter. Also what arrives
// when Escape and the letter are pressed in quick succession / batched by the
// transport.
func TestAltNonASCII(t *testing.T) {
	vx, f := start(t)
	defer vx.Close()

	f.inject("\x1bé") // Alt+é
	evs := drain(vx, 100*time.Millisecond)
	t.Logf("ESC é -> [%s]", show(evs))
	n := 0
	for _, ev := range evs {
		if k, ok := ev.(vaxis.Key); ok {
			n++
			_ = k
		}
	}
	if n == 0 {
		t.Errorf("ESC é (Alt+é, or Escape then é) produced no key event at all: the key press is lost")
	}

	// liveness sentinel still fine
	f.inject("z")
	evs = drain(vx, 100*time.Millisecond)
	t.Logf("z -> [%s]", show(evs))
}

// Related: two Escape presses (or legacy Alt+Escape = ESC ESC) arriving in
// one read give a single Escape event; ESC ESC [ A (Alt+Up of rxvt / macOS
// Terminal) gives a plain Up.
func TestEscEsc(t *testing.T) {
	vx, f := start(t)
	defer vx.Close()

	f.inject("\x1b\x1b")
	evs := drain(vx, 100*time.Millisecond)
	t.Logf("ESC ESC -> [%s]", show(evs))
	if len(evs) == 1 {
		if k, ok := evs[0].(vaxis.Key); ok && k.Keycode == vaxis.KeyEsc && k.Modifiers == 0 {
			t.Errorf("ESC ESC produced a single unmodified Escape: one key press (or the Alt modifier) is lost")
		}
	}
}
