package demo

import (
	"testing"

	"git.sr.ht/~rockorager/vaxis"
	"git.sr.ht/~rockorager/vaxis/vxfw"
	"git.sr.ht/~rockorager/vaxis/vxfw/textfield"
)

func key(tf *textfield.TextField, k vaxis.Key) { tf.HandleEvent(k, vxfw.TargetPhase) }
func typ(tf *textfield.TextField, s string) {
	for _, r := range s {
		key(tf, vaxis.Key{Keycode: r, Text: string(r)})
	}
}

// Deleting the grapheme between two graphemes that join once they are
// neighbours (regional indicators, Hangul jamo) leaves the cursor index
// pointing behind the joined cluster instead of at the place of the deletion:
// the next typed character does not appear where the cursor was.
func TestDeleteBetweenJoinable(t *testing.T) {
	for _, c := range []struct{ a, b string }{{"🇩", "🇪"}, {"ᄀ", "ᅡ"}} {
		// Backspace
		tf := textfield.New()
		typ(tf, c.a+"x"+c.b)
		key(tf, vaxis.Key{Keycode: vaxis.KeyLeft})
		key(tf, vaxis.Key{Keycode: vaxis.KeyBackspace})
		typ(tf, "y")
		if want := c.a + "y" + c.b; tf.Value != want {
			t.Errorf("type %sx%s, Left, Backspace, type y: Value %q, want %q", c.a, c.b, tf.Value, want)
		}
		// Delete
		tf = textfield.New()
		typ(tf, c.a+"x"+c.b)
		key(tf, vaxis.Key{Keycode: vaxis.KeyHome})
		key(tf, vaxis.Key{Keycode: vaxis.KeyRight})
		key(tf, vaxis.Key{Keycode: vaxis.KeyDelete})
		typ(tf, "y")
		if want := c.a + "y" + c.b; tf.Value != want {
			t.Errorf("type %sx%s, Home, Right, Delete, type y: Value %q, want %q", c.a, c.b, tf.Value, want)
		}
	}
}
