package demo

import (
	"testing"

	"git.sr.ht/~rockorager/vaxis"
	"git.sr.ht/~rockorager/vaxis/vxfw"
	"git.sr.ht/~rockorager/vaxis/vxfw/textfield"
)

func key(tf *textfield.TextField, k vaxis.Key) { tf.HandleEvent(k, vxfw.TargetPhase) }

func cursorCol(t *testing.T, tf *textfield.TextField) int {
	s, err := tf.Draw(vxfw.DrawContext{Max: vxfw.Size{Width: 40, Height: 1}, Characters: vaxis.Characters})
	if err != nil {
		t.Fatal(err)
	}
	return int(s.Cursor.Col)
}

// A TextField is given its starting content through the exported Value field
// (there is no other setter). The cached grapheme count n is not refreshed, so
// the navigation and deletion keys act as if the field were empty.
func TestStartingContentViaValue(t *testing.T) {
	tf := textfield.New()
	tf.Value = "hello"
	key(tf, vaxis.Key{Keycode: vaxis.KeyEnd})
	if c := cursorCol(t, tf); c != 5 {
		t.Errorf("Value=hello, End: drawn cursor col %d, want 5", c)
	}
	key(tf, vaxis.Key{Keycode: vaxis.KeyRight})
	if c := cursorCol(t, tf); c == 0 {
		t.Errorf("Value=hello, End, Right: drawn cursor col still 0")
	}
	key(tf, vaxis.Key{Keycode: vaxis.KeyHome})
	key(tf, vaxis.Key{Keycode: vaxis.KeyDelete})
	if tf.Value != "ello" {
		t.Errorf("Home, Delete on hello: Value %q, want \"ello\"", tf.Value)
	}
	key(tf, vaxis.Key{Keycode: 'k', Modifiers: vaxis.ModCtrl})
	if tf.Value != "" {
		t.Errorf("Home, Ctrl+k: Value %q, want \"\"", tf.Value)
	}
}
