package demo

import (
	"testing"

	"git.sr.ht/~rockorager/vaxis"
	"git.sr.ht/~rockorager/vaxis/widgets/textinput"
)

func graphemes(s string) int { return len(vaxis.Characters(s)) }

// After a deletion makes two graphemes neighbours that form ONE cluster, the
// textinput keeps them as two editing units. It then holds a text of one
// grapheme with a cursor index of 2, and Backspace removes half of the
// grapheme. The same text with the same cursor reached by SetContent behaves
// differently, so the widget's behaviour is not a function of (text, cursor)
// as it is for an ideal grapheme line editor.
func TestStaleSegmentationAfterDeletion(t *testing.T) {
	for _, c := range []struct{ a, b string }{{"🇩", "🇪"}, {"ᄀ", "ᅡ"}} {
		m := textinput.New()
		m.SetContent(c.a + "x" + c.b)
		m.Update(vaxis.Key{Keycode: vaxis.KeyLeft})
		m.Update(vaxis.Key{Keycode: vaxis.KeyBackspace})
		m.Update(vaxis.Key{Keycode: vaxis.KeyEnd})

		ref := textinput.New()
		ref.SetContent(c.a + c.b) // same text, cursor at the end

		if m.String() != ref.String() {
			t.Fatalf("texts differ: %q %q", m.String(), ref.String())
		}
		if n := graphemes(m.String()); m.CursorPosition() > n {
			t.Errorf("%q has %d grapheme(s) but CursorPosition() = %d (SetContent of the same text: %d)",
				m.String(), n, m.CursorPosition(), ref.CursorPosition())
		}
		m.Update(vaxis.Key{Keycode: vaxis.KeyBackspace})
		ref.Update(vaxis.Key{Keycode: vaxis.KeyBackspace})
		if m.String() != ref.String() {
			t.Errorf("Backspace at the end of %q: after the edit history %q is left, after SetContent %q (ideal: the one grapheme is removed)",
				c.a+c.b, m.String(), ref.String())
		}
	}
}
