package demo

import (
	"strings"
	"testing"

	"git.sr.ht/~rockorager/vaxis"
	"git.sr.ht/~rockorager/vaxis/vxfw"
	"git.sr.ht/~rockorager/vaxis/vxfw/richtext"
	"git.sr.ht/~rockorager/vaxis/vxfw/text"
)

func TestOverflow(t *testing.T) {
	in := "x " + strings.Repeat("a", 65536+3) + " y"
	width := uint16(5)
	dctx := vxfw.DrawContext{Characters: vaxis.Characters, Max: vxfw.Size{Width: width, Height: 100}}
	sc := text.NewSoftwrapScanner(in, width)
	n := 0
	for sc.Scan(dctx) {
		l := strings.TrimRight(sc.Text(), " ")
		if len(l) > int(width) {
			t.Errorf("plain: line %d has width %d > %d", n, len(l), width)
		}
		n++
	}
	t.Logf("plain lines: %d", n)
	cells := []vaxis.Cell{}
	for _, c := range vaxis.Characters(in) {
		cells = append(cells, vaxis.Cell{Character: c})
	}
	rsc := richtext.NewSoftwrapScanner(cells, width)
	n = 0
	for rsc.Scan() {
		w := 0
		for _, c := range rsc.Text() {
			if c.Grapheme != " " {
				w += c.Width
			}
		}
		if w > int(width) {
			t.Errorf("rich: line %d has width %d > %d", n, w, width)
		}
		n++
	}
	t.Logf("rich lines: %d", n)
}
