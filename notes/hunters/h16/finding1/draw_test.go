package demo

import (
	"strings"
	"testing"

	"git.sr.ht/~rockorager/vaxis"
	"git.sr.ht/~rockorager/vaxis/vxfw"
	"git.sr.ht/~rockorager/vaxis/vxfw/richtext"
	"git.sr.ht/~rockorager/vaxis/vxfw/text"
)

func rowsOf(s vxfw.Surface) []string {
	var rows []string
	for r := 0; r < int(s.Size.Height); r++ {
		var b strings.Builder
		for c := 0; c < int(s.Size.Width); c++ {
			b.WriteString(s.Buffer[r*int(s.Size.Width)+c].Grapheme)
		}
		rows = append(rows, b.String())
	}
	return rows
}

// A line that starts with a lone combining mark (start of text, or right after
// a hard line break) is emitted by the scanners with the mark, but the widgets
// draw the row without it: the zero-width cell is overwritten by the next one.
func TestLeadingCombiningMarkIsDrawn(t *testing.T) {
	for _, in := range []string{"́ab", "a\ńb"} {
		ctx := vxfw.DrawContext{Characters: vaxis.Characters, Max: vxfw.Size{Width: 10, Height: 10}}

		sc := text.NewSoftwrapScanner(in, 10)
		var lines []string
		for sc.Scan(ctx) {
			lines = append(lines, sc.Text())
		}
		s, _ := text.New(in).Draw(ctx)
		rows := rowsOf(s)
		if strings.Join(rows, "|") != strings.Join(lines, "|") {
			t.Errorf("text: in=%q emitted lines %q but drawn rows %q", in, lines, rows)
		}

		cells := []vaxis.Cell{}
		for _, c := range vaxis.Characters(in) {
			cells = append(cells, vaxis.Cell{Character: c})
		}
		rsc := richtext.NewSoftwrapScanner(cells, 10)
		var rlines []string
		for rsc.Scan() {
			l := ""
			for _, c := range rsc.Text() {
				l += c.Grapheme
			}
			rlines = append(rlines, l)
		}
		rs, _ := richtext.New([]vaxis.Segment{{Text: in}}).Draw(ctx)
		rrows := rowsOf(rs)
		if strings.Join(rrows, "|") != strings.Join(rlines, "|") {
			t.Errorf("richtext: in=%q emitted lines %q but drawn rows %q", in, rlines, rrows)
		}
	}
}
