package demo

import (
	"testing"

	"git.sr.ht/~rockorager/vaxis"
	"git.sr.ht/~rockorager/vaxis/vxfw"
	"git.sr.ht/~rockorager/vaxis/vxfw/richtext"
	"git.sr.ht/~rockorager/vaxis/vxfw/text"
)

// The run of letters "ab" (width 2) fits on a line of width 3 (resp. 2) of its
// own, yet it is split over two lines, because it belongs to a line segment
// ("（ab", " ab") that is longer than the line and that segment is broken
// grapheme by grapheme without regard to the letter run inside it.
func TestRunOfLettersNotSplit(t *testing.T) {
	cases := []struct {
		in    string
		width uint16
		run   string
	}{
		{"（ab", 3, "ab"},       // fullwidth left parenthesis (wide, class OP)
		{"xy  ab", 2, "ab"}, // no-break space glues to the letters
	}
	ctx := vxfw.DrawContext{Characters: vaxis.Characters}
	for _, c := range cases {
		sc := text.NewSoftwrapScanner(c.in, c.width)
		var lines []string
		found := false
		for sc.Scan(ctx) {
			lines = append(lines, sc.Text())
			if contains(sc.Text(), c.run) {
				found = true
			}
		}
		if !found {
			t.Errorf("text: in=%q width=%d: run %q split: lines %q", c.in, c.width, c.run, lines)
		}

		cells := []vaxis.Cell{}
		for _, ch := range vaxis.Characters(c.in) {
			cells = append(cells, vaxis.Cell{Character: ch})
		}
		rsc := richtext.NewSoftwrapScanner(cells, c.width)
		lines = nil
		found = false
		for rsc.Scan() {
			l := ""
			for _, ch := range rsc.Text() {
				l += ch.Grapheme
			}
			lines = append(lines, l)
			if contains(l, c.run) {
				found = true
			}
		}
		if !found {
			t.Errorf("richtext: in=%q width=%d: run %q split: lines %q", c.in, c.width, c.run, lines)
		}
	}
}

func contains(s, sub string) bool {
	for i := 0; i+len(sub) <= len(s); i++ {
		if s[i:i+len(sub)] == sub {
			return true
		}
	}
	return false
}
