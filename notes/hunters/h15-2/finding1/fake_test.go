package demo

import (
	"bytes"
	"os"
	"sync"

	"github.com/containerd/console"
)

type fakeConsole struct {
	mu     sync.Mutex
	cond   *sync.Cond
	in     []byte
	out    bytes.Buffer
	closed bool
	pend   []byte
}

func newFake() *fakeConsole {
	os.Unsetenv("COLORTERM")
	for _, k := range []string{"VAXIS_FORCE_LEGACY_SGR", "VAXIS_FORCE_WCWIDTH", "VAXIS_FORCE_UNICODE", "VAXIS_LOG_LEVEL", "VAXIS_FORCE_XTWINOPS", "VAXIS_GRAPHICS"} {
		os.Unsetenv(k)
	}
	f := &fakeConsole{}
	f.cond = sync.NewCond(&f.mu)
	return f
}

func (f *fakeConsole) Inject(b string) {
	f.mu.Lock()
	f.in = append(f.in, b...)
	f.cond.Broadcast()
	f.mu.Unlock()
}

func (f *fakeConsole) Read(p []byte) (int, error) {
	f.mu.Lock()
	defer f.mu.Unlock()
	for len(f.in) == 0 && !f.closed {
		f.cond.Wait()
	}
	if len(f.in) == 0 {
		return 0, os.ErrClosed
	}
	n := copy(p, f.in)
	f.in = f.in[n:]
	return n, nil
}

func (f *fakeConsole) Write(p []byte) (int, error) {
	f.mu.Lock()
	defer f.mu.Unlock()
	f.out.Write(p)
	f.pend = append(f.pend, p...)
	for {
		i := bytes.Index(f.pend, []byte("\x1b[6n"))
		j := bytes.Index(f.pend, []byte("\x1b[c"))
		if i < 0 && j < 0 {
			break
		}
		if i >= 0 && (j < 0 || i < j) {
			f.in = append(f.in, "\x1b[1;1R"...)
			f.pend = f.pend[i+4:]
		} else {
			f.in = append(f.in, "\x1b[?62;22c"...)
			f.pend = f.pend[j+3:]
		}
		f.cond.Broadcast()
	}
	if len(f.pend) > 8 {
		f.pend = f.pend[len(f.pend)-8:]
	}
	return len(p), nil
}

func (f *fakeConsole) OutLen() int {
	f.mu.Lock()
	defer f.mu.Unlock()
	return f.out.Len()
}

func (f *fakeConsole) Out() string {
	f.mu.Lock()
	defer f.mu.Unlock()
	return f.out.String()
}

func (f *fakeConsole) Close() error {
	f.mu.Lock()
	f.closed = true
	f.cond.Broadcast()
	f.mu.Unlock()
	return nil
}
func (f *fakeConsole) Fd() uintptr                        { return ^uintptr(0) }
func (f *fakeConsole) Name() string                       { return "fake" }
func (f *fakeConsole) Resize(console.WinSize) error       { return nil }
func (f *fakeConsole) ResizeFrom(console.Console) error   { return nil }
func (f *fakeConsole) SetRaw() error                      { return nil }
func (f *fakeConsole) DisableEcho() error                 { return nil }
func (f *fakeConsole) Reset() error                       { return nil }
func (f *fakeConsole) Size() (console.WinSize, error) {
	return console.WinSize{Height: 24, Width: 80}, nil
}
