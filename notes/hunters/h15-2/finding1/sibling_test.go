package demo

import (
	"fmt"
	"strings"
	"testing"
	"time"
	"git.sr.ht/~rockorager/vaxis"
	"git.sr.ht/~rockorager/vaxis/vxfw"
)

// 13 siblings: the first one raised (z=1, far away from the pointer), the
// others z=0. Siblings c3 and c6 overlap at the pointer; c6 is the later one.
func TestSiblingOrder(t *testing.T) {
	l := &logger{}
	root := &W{name: "root", l: l}
	for i := 0; i < 13; i++ {
		c := &W{name: fmt.Sprintf("c%d", i), l: l, x: 0, y: i, w: 20, h: 1}
		root.children = append(root.children, c)
	}
	root.children[0].z = 1
	root.children[0].y = 20
	// c6 covers rows 2..5, columns 2..11: it overlaps c3 (row 3)
	root.children[6].x, root.children[6].y, root.children[6].w, root.children[6].h = 2, 2, 10, 4
	root.on = func(w *W, ev vaxis.Event, ph vxfw.EventPhase) vxfw.Command {
		if k, ok := ev.(vaxis.Key); ok {
			if k.Matches('q') {
				return vxfw.QuitCmd{}
			}
			if k.Matches('d') {
				return vxfw.RedrawCmd{}
			}
		}
		return nil
	}
	f, done := runApp(t, root)
	time.Sleep(200 * time.Millisecond)
	f.Inject("d")
	time.Sleep(200 * time.Millisecond)
	for i := 0; i < 3; i++ {
		f.Inject("\x1b[<35;6;4M") // motion, column 5, row 3
		time.Sleep(100 * time.Millisecond)
		f.Inject("d") // a frame: same tree, pointer not moved
		time.Sleep(100 * time.Millisecond)
	}
	f.Inject("q")
	<-done
	log := l.snap()
	t.Log(log)
	var hover []string
	for _, e := range log {
		if strings.Contains(e, "MouseEnter") || strings.Contains(e, "MouseLeave") {
			hover = append(hover, e)
		}
	}
	t.Log("hover notifications:", hover)
	// The tree and the pointer never changed: after the first motion
	// event nobody may be entered or left any more
	n := 0
	for _, e := range hover {
		if !strings.HasPrefix(e, "root:") {
			n++
		}
	}
	if n != 1 {
		t.Errorf("pointer and widget tree never changed, yet %d enter/leave notifications went to c3/c6 (want 1 enter)", n)
	}
}

