package demo

import (
	"testing"
	"time"

	"git.sr.ht/~rockorager/vaxis"
	"git.sr.ht/~rockorager/vaxis/vxfw"
)

// A handler returns RefreshCmd alone
func TestRefreshAlone(t *testing.T) {
	l := &logger{}
	root := &W{name: "root", l: l}
	root.on = func(w *W, ev vaxis.Event, ph vxfw.EventPhase) vxfw.Command {
		if k, ok := ev.(vaxis.Key); ok {
			if k.Matches('r') {
				return vxfw.RefreshCmd{}
			}
			if k.Matches('q') {
				return vxfw.QuitCmd{}
			}
		}
		return nil
	}
	f, done := runApp(t, root)
	time.Sleep(300 * time.Millisecond)
	n0 := f.OutLen()
	f.Inject("r")
	time.Sleep(300 * time.Millisecond)
	n1 := f.OutLen()
	t.Log(l.snap(), n0, n1)
	f.Inject("q")
	<-done
	if n1 == n0 {
		t.Fatalf("RefreshCmd had no effect")
	}
}
