package demo

import (
	"fmt"
	"sync"
	"testing"

	"git.sr.ht/~rockorager/vaxis"
	"git.sr.ht/~rockorager/vaxis/vxfw"
)

type logger struct {
	mu  sync.Mutex
	log []string
}

func (l *logger) add(s string) {
	l.mu.Lock()
	l.log = append(l.log, s)
	l.mu.Unlock()
}
func (l *logger) snap() []string {
	l.mu.Lock()
	defer l.mu.Unlock()
	return append([]string(nil), l.log...)
}

type W struct {
	name     string
	l        *logger
	children []*W
	x, y     int
	w, h     uint16
	z        int
	on       func(w *W, ev vaxis.Event, ph vxfw.EventPhase) vxfw.Command
	onErr    func(ev vaxis.Event) error
}

func (w *W) HandleEvent(ev vaxis.Event, ph vxfw.EventPhase) (vxfw.Command, error) {
	w.l.add(fmt.Sprintf("%s:%T:%d", w.name, ev, ph))
	if w.onErr != nil {
		if err := w.onErr(ev); err != nil {
			return nil, err
		}
	}
	if w.on != nil {
		return w.on(w, ev, ph), nil
	}
	return nil, nil
}

func (w *W) Draw(ctx vxfw.DrawContext) (vxfw.Surface, error) {
	ww, hh := w.w, w.h
	if ww == 0 {
		ww, hh = ctx.Max.Width, ctx.Max.Height
	}
	s := vxfw.NewSurface(ww, hh, w)
	for _, c := range w.children {
		cs, _ := c.Draw(ctx)
		s.AddChild(c.x, c.y, cs)
		s.Children[len(s.Children)-1].ZIndex = c.z
	}
	return s, nil
}

func runApp(t *testing.T, root vxfw.Widget) (*fakeConsole, chan error) {
	f := newFake()
	app, err := vxfw.NewApp(vaxis.Options{WithConsole: f})
	if err != nil {
		t.Fatal(err)
	}
	done := make(chan error, 1)
	go func() { done <- app.Run(root) }()
	return f, done
}

