package demo

import (
	"errors"
	"testing"
	"time"
	"git.sr.ht/~rockorager/vaxis"
	"git.sr.ht/~rockorager/vaxis/vxfw"
)

// FocusOut handler returns an error
func TestFocusOutError(t *testing.T) {
	l := &logger{}
	a := &W{name: "a", l: l, x: 0, y: 0, w: 5, h: 1}
	b := &W{name: "b", l: l, x: 0, y: 1, w: 5, h: 1}
	root := &W{name: "root", l: l, children: []*W{a, b}}
	root.on = func(w *W, ev vaxis.Event, ph vxfw.EventPhase) vxfw.Command {
		switch ev.(type) {
		case vxfw.Init:
			return vxfw.FocusWidgetCmd(a)
		}
		if k, ok := ev.(vaxis.Key); ok {
			if k.Matches('q') {
				return vxfw.QuitCmd{}
			}
			if k.Matches('n') {
				return vxfw.FocusWidgetCmd(b)
			}
		}
		return nil
	}
	a.onErr = func(ev vaxis.Event) error {
		if _, ok := ev.(vaxis.FocusOut); ok {
			return errors.New("a: cannot save")
		}
		return nil
	}
	f, done := runApp(t, root)
	time.Sleep(200 * time.Millisecond)
	f.Inject("n")
	time.Sleep(100 * time.Millisecond)
	f.Inject("x")
	time.Sleep(100 * time.Millisecond)
	f.Inject("q")
	err := <-done
	log := l.snap()
	t.Log("Run returned:", err)
	t.Log(log)
	in, keys := 0, 0
	for _, e := range log {
		if e == "b:vaxis.FocusIn:1" {
			in++
		}
		if e == "b:vaxis.Key:1" {
			keys++
		}
	}
	if keys > 0 && in != 1 {
		t.Errorf("b is the target of %d key events (it holds the focus) but received %d FocusIn; Run returned %v", keys, in, err)
	}
}
