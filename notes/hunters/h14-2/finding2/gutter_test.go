package finding2

import (
	"testing"

	"git.sr.ht/~rockorager/vaxis"
	"git.sr.ht/~rockorager/vaxis/vxfw"
	"git.sr.ht/~rockorager/vaxis/vxfw/list"
	"git.sr.ht/~rockorager/vaxis/vxfw/text"
	"git.sr.ht/~rockorager/vaxis/vxfw/textfield"
)

// widest returns the largest right edge (origin column + width) of any
// surface nested in s, relative to s
func widest(s vxfw.Surface, col int) int {
	w := col + int(s.Size.Width)
	for _, ch := range s.Children {
		if cw := widest(ch.Surface, col+ch.Origin.Col); cw > w {
			w = cw
		}
	}
	return w
}

func TestGutterUnderflow(t *testing.T) {
	for _, maxW := range []uint16{4, 3, 2, 1, 0} {
		items := []vxfw.Widget{
			text.New("aaa bbb ccc"), // soft-wrapped
			textfield.New(),
		}
		d := &list.Dynamic{
			DrawCursor: true,
			Builder: func(i uint, cursor uint) vxfw.Widget {
				if i >= uint(len(items)) {
					return nil
				}
				return items[i]
			},
		}
		d.SetCursor(1)
		s, err := d.Draw(vxfw.DrawContext{
			Max:        vxfw.Size{Width: maxW, Height: 20},
			Characters: vaxis.Characters,
		})
		if err != nil {
			t.Fatal(err)
		}
		for i, ch := range s.Children {
			item := ch.Surface
			if len(item.Children) == 1 { // the cursor gutter wraps the cursored item
				item = item.Children[0].Surface
			}
			t.Logf("list max width %d: item %d is %dx%d", maxW, i, item.Size.Width, item.Size.Height)
		}
		if w := widest(s, 0); w > int(maxW)+2 {
			t.Errorf("list max width %d: the surface tree the list returned reaches column %d: "+
				"the items were laid out for a maximum width of %d",
				maxW, w, uint16(maxW-2))
		}
	}
}
