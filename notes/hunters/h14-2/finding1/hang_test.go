package finding1

import (
	"fmt"
	"sync/atomic"
	"testing"
	"time"

	"git.sr.ht/~rockorager/vaxis"
	"git.sr.ht/~rockorager/vaxis/vxfw"
	"git.sr.ht/~rockorager/vaxis/vxfw/list"
	"git.sr.ht/~rockorager/vaxis/vxfw/text"
)

// The list of the library's own example (_examples/vxfw/list): the builder
// has a row for every index. The rows are soft-wrapped Text widgets
// (text.New), the list draws its cursor gutter (2 columns).
func draw(t *testing.T, maxW, maxH uint16) {
	var built atomic.Int64
	d := &list.Dynamic{
		DrawCursor: true,
		Builder: func(i uint, cursor uint) vxfw.Widget {
			built.Add(1)
			return text.New(fmt.Sprintf("Row %d", i))
		},
	}
	ctx := vxfw.DrawContext{
		Max:        vxfw.Size{Width: maxW, Height: maxH},
		Characters: vaxis.Characters,
	}
	done := make(chan vxfw.Surface, 1)
	go func() {
		s, _ := d.Draw(ctx)
		done <- s
	}()
	select {
	case s := <-done:
		t.Logf("max %dx%d: Draw returned %dx%d with %d children (%d widgets built)",
			maxW, maxH, s.Size.Width, s.Size.Height, len(s.Children), built.Load())
	case <-time.After(3 * time.Second):
		t.Errorf("max %dx%d: Draw has not returned after 3s, %d widgets built and drawn so far "+
			"(it never returns; the child list grows until memory is exhausted)", maxW, maxH, built.Load())
	}
}

func TestListThreeColumns(t *testing.T) { draw(t, 3, 10) }

// two columns: the gutter takes both, the rows are given width 0
func TestListTwoColumns(t *testing.T) { draw(t, 2, 10) }
