package h12demo

import (
	"testing"

	"git.sr.ht/~rockorager/vaxis"
)

func blank(cols, rows int) [][]vaxis.Cell {
	want := make([][]vaxis.Cell, rows)
	for i := range want {
		want[i] = make([]vaxis.Cell, cols)
	}
	return want
}

// Two neighbouring cells, each holding ONE grapheme cluster, whose
// concatenation is a single cluster under UAX #29.
func TestAdjacentCellsJoin(t *testing.T) {
	cases := []struct {
		name string
		a, b string
	}{
		{"regional indicators", "\U0001F1FA", "\U0001F1F8"},      // U, S
		{"hangul leading jamo", "ᄀ", "ᄀ"},              // L x L (GB6)
		{"letter then skin tone modifier", "a", "\U0001F3FD"},    // x Extend (GB9)
		{"prepend then letter", "؀", "a"},                   // Prepend x (GB9b)
	}
	for _, tc := range cases {
		t.Run(tc.name, func(t *testing.T) {
			vx, c := start(t, 20, 3)
			defer vx.Close()
			win := vx.Window()
			wa := vx.RenderedWidth(tc.a)
			wb := vx.RenderedWidth(tc.b)
			if wa < 1 || wb < 1 {
				t.Skipf("widths %d %d", wa, wb)
			}
			win.SetCell(0, 0, vaxis.Cell{Character: vaxis.Character{Grapheme: tc.a}})
			win.SetCell(wa, 0, vaxis.Cell{Character: vaxis.Character{Grapheme: tc.b}})
			win.SetCell(wa+wb, 0, vaxis.Cell{Character: vaxis.Character{Grapheme: "|"}})
			vx.Render()
			c.settle(t)
			want := blank(20, 3)
			want[0][0] = vaxis.Cell{Character: vaxis.Character{Grapheme: tc.a, Width: wa}}
			want[0][wa] = vaxis.Cell{Character: vaxis.Character{Grapheme: tc.b, Width: wb}}
			want[0][wa+wb] = vaxis.Cell{Character: vaxis.Character{Grapheme: "|", Width: 1}}
			compare(t, c, want)
		})
	}
}
