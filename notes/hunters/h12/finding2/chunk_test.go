package h12demo

import (
	"fmt"
	"testing"

	"git.sr.ht/~rockorager/vaxis"
)

// One frame of an 80x40 screen filled with the cluster "e" + U+0301 (a single
// grapheme cluster of width 1). Vaxis hands the frame to the terminal in one
// write; the emulator's parser (ansi.Parser, a bufio.Reader of 4096 bytes)
// sees it in reads of at most 4096 bytes.
func TestClusterAcrossReads(t *testing.T) {
	const cols, rows = 80, 40
	// k plain letters at the start shift the frame's bytes against the
	// parser's read boundaries
	for k := 0; k < 3; k++ {
		t.Run(fmt.Sprintf("shift%d", k), func(t *testing.T) {
			vx, c := start(t, cols, rows)
			defer vx.Close()
			win := vx.Window()
			want := blank(cols, rows)
			for r := 0; r < rows; r++ {
				for col := 0; col < cols; col++ {
					g := "e\u0301"
					if r == 0 && col < k {
						g = "x"
					}
					win.SetCell(col, r, vaxis.Cell{Character: vaxis.Character{Grapheme: g}})
					want[r][col] = vaxis.Cell{Character: vaxis.Character{Grapheme: g, Width: 1}}
				}
			}
			vx.Render()
			c.settle(t)
			if n := compare(t, c, want); n > 0 {
				t.Errorf("%d cells differ", n)
			}
		})
	}
}

// The same with a family emoji (ZWJ sequence, width 2): the halves of a
// cluster cut by a read boundary are laid out as two characters, which shifts
// the rest of the row.
func TestZWJAcrossReads(t *testing.T) {
	const cols, rows = 80, 40
	vx, c := start(t, cols, rows)
	defer vx.Close()
	win := vx.Window()
	want := blank(cols, rows)
	g := "\U0001F469‍\U0001F469‍\U0001F467"
	w := vx.RenderedWidth(g)
	for r := 0; r < rows; r++ {
		for col := 0; col+w <= cols; col += w {
			win.SetCell(col, r, vaxis.Cell{Character: vaxis.Character{Grapheme: g}})
			want[r][col] = vaxis.Cell{Character: vaxis.Character{Grapheme: g, Width: w}}
		}
	}
	vx.Render()
	c.settle(t)
	if n := compare(t, c, want); n > 0 {
		t.Errorf("%d cells differ", n)
	}
}
