package h12demo

import (
	"fmt"
	"io"
	"os"
	"sync"
	"testing"
	"time"

	"git.sr.ht/~rockorager/vaxis"
	"git.sr.ht/~rockorager/vaxis/ansi"
	"git.sr.ht/~rockorager/vaxis/widgets/term"
	"github.com/containerd/console"
)

// emuConsole is a console whose other end is the embedded terminal emulator
// (widgets/term.Model fed through its own ansi.Parser): every byte Vaxis
// writes is parsed and applied to the emulator, every reply the emulator
// writes is what Vaxis reads.
type emuConsole struct {
	cols, rows int
	vt         *term.Model
	replyR     *os.File // Vaxis reads the emulator's replies here
	replyW     *os.File
	inW        *io.PipeWriter // bytes to the emulator's parser
	mu         sync.Mutex
	syncCh     chan struct{}
	raw        []byte
	chunk      int // if > 0, hand bytes to the parser in writes of this size
	fd         uintptr
}

func newEmuConsole(t *testing.T, cols, rows int) *emuConsole {
	t.Helper()
	os.Unsetenv("COLORTERM")
	for _, k := range []string{"VAXIS_FORCE_LEGACY_SGR", "VAXIS_FORCE_WCWIDTH", "VAXIS_FORCE_UNICODE", "VAXIS_FORCE_XTWINOPS", "VAXIS_DISABLE_XTWINOPS", "VAXIS_GRAPHICS", "VAXIS_LOG_LEVEL"} {
		os.Unsetenv(k)
	}
	r, w, err := os.Pipe()
	if err != nil {
		t.Fatal(err)
	}
	pr, pw := io.Pipe()
	c := &emuConsole{cols: cols, rows: rows, replyR: r, replyW: w, inW: pw, syncCh: make(chan struct{}, 16), fd: ^uintptr(0)}
	c.vt = term.NewVerif(w, cols, rows)
	parser := ansi.NewParser(pr)
	go func() {
		for seq := range parser.Next() {
			if _, ok := seq.(ansi.EOF); ok {
				return
			}
			if apc, ok := seq.(ansi.APC); ok && apc.Data == "H12SYNC" {
				parser.Finish(seq)
				c.syncCh <- struct{}{}
				continue
			}
			c.vt.VerifFeed(seq)
		}
	}()
	return c
}

func (c *emuConsole) Read(p []byte) (int, error) { return c.replyR.Read(p) }
func (c *emuConsole) Write(p []byte) (int, error) {
	c.mu.Lock()
	c.raw = append(c.raw, p...)
	c.mu.Unlock()
	if c.chunk > 0 {
		for off := 0; off < len(p); off += c.chunk {
			end := off + c.chunk
			if end > len(p) {
				end = len(p)
			}
			if _, err := c.inW.Write(p[off:end]); err != nil {
				return off, err
			}
		}
		return len(p), nil
	}
	return c.inW.Write(p)
}
func (c *emuConsole) Close() error                       { c.replyW.Close(); return nil }
func (c *emuConsole) Fd() uintptr                        { return c.fd }
func (c *emuConsole) Name() string                       { return "emu" }
func (c *emuConsole) Resize(console.WinSize) error       { return nil }
func (c *emuConsole) ResizeFrom(console.Console) error   { return nil }
func (c *emuConsole) SetRaw() error                      { return nil }
func (c *emuConsole) DisableEcho() error                 { return nil }
func (c *emuConsole) Reset() error                       { return nil }
func (c *emuConsole) Size() (console.WinSize, error) {
	return console.WinSize{Width: uint16(c.cols), Height: uint16(c.rows)}, nil
}

// settle waits until the emulator has applied everything written so far.
func (c *emuConsole) settle(t *testing.T) {
	t.Helper()
	c.inW.Write([]byte("\x1b_H12SYNC\x1b\\"))
	select {
	case <-c.syncCh:
	case <-time.After(5 * time.Second):
		t.Fatal("emulator did not settle")
	}
}

func start(t *testing.T, cols, rows int) (*vaxis.Vaxis, *emuConsole) {
	t.Helper()
	return startOn(t, newEmuConsole(t, cols, rows))
}

func startOn(t *testing.T, c *emuConsole) (*vaxis.Vaxis, *emuConsole) {
	t.Helper()
	vx, err := vaxis.New(vaxis.Options{WithConsole: c, NoSignals: true, DisableMouse: true})
	if err != nil {
		t.Fatal(err)
	}
	c.settle(t)
	return vx, c
}

func norm(g string) string {
	if g == "" {
		return " "
	}
	return g
}

// compare reports the cells where the emulator differs from want (graphemes
// and widths only, covered cells skipped).
func compare(t *testing.T, c *emuConsole, want [][]vaxis.Cell) int {
	t.Helper()
	snap := c.vt.VerifSnapshot()
	bad := 0
	for r := range want {
		for col := 0; col < len(want[r]); {
			w := want[r][col]
			got := snap.Active[r][col]
			ww := w.Width
			if ww < 1 {
				ww = 1
			}
			gw := got.Width
			if gw < 1 {
				gw = 1
			}
			if norm(w.Grapheme) != norm(got.Grapheme) || ww != gw || w.Style != got.Style {
				bad++
				if bad <= 8 {
					t.Errorf("cell (col %d,row %d): application has %q width %d style %+v; emulator has %q width %d style %+v",
						col, r, w.Grapheme, ww, w.Style, got.Grapheme, gw, got.Style)
				}
			}
			col += ww
		}
	}
	return bad
}

var _ = fmt.Sprintf

func blank(cols, rows int) [][]vaxis.Cell {
	want := make([][]vaxis.Cell, rows)
	for i := range want {
		want[i] = make([]vaxis.Cell, cols)
	}
	return want
}
