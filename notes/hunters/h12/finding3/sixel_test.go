package h12demo

import (
	"bytes"
	"image"
	"image/color"
	"reflect"
	"testing"
	"time"

	"github.com/creack/pty"
)

func emuImages(c *emuConsole) int {
	return reflect.ValueOf(c.vt).Elem().FieldByName("graphics").Len()
}

// The emulator answers DA1 with the sixel extension (4). Vaxis therefore draws
// images as sixels, in the form its encoder produces (DCS 0;0;8 q ...). The
// emulator discards every DCS q that has parameters, so the image Vaxis sends
// never reaches the emulator's screen, although a parameterless DCS q does.
func TestSixelAdvertisedButDropped(t *testing.T) {
	const cols, rows = 20, 6
	c := newEmuConsole(t, cols, rows)
	// a real tty behind Fd() so that Vaxis learns a cell size in pixels (the
	// sixel encoder divides by it)
	ptmx, tty, err := pty.Open()
	if err != nil {
		t.Skip(err)
	}
	defer ptmx.Close()
	defer tty.Close()
	pty.Setsize(tty, &pty.Winsize{Rows: rows, Cols: cols, X: cols * 10, Y: rows * 20})
	c.fd = tty.Fd()
	vx, _ := startOn(t, c)
	defer vx.Close()
	if !vx.CanSixel() {
		t.Fatal("Vaxis did not take the emulator's DA1 reply for sixel support")
	}
	src := image.NewRGBA(image.Rect(0, 0, 20, 20))
	for i := range src.Pix {
		src.Pix[i] = 0xff
	}
	src.Set(3, 3, color.RGBA{255, 0, 0, 255})
	img, err := vx.NewImage(src)
	if err != nil {
		t.Fatal(err)
	}
	img.Resize(4, 2)
	time.Sleep(300 * time.Millisecond) // encoding is asynchronous
	img.Draw(vx.Window())
	vx.Render()
	c.settle(t)
	c.mu.Lock()
	sent := bytes.Contains(c.raw, []byte("\x1bP0;0;8q"))
	c.mu.Unlock()
	if !sent {
		t.Fatal("Vaxis did not send a sixel image")
	}
	if n := emuImages(c); n != 1 {
		t.Errorf("Vaxis sent a sixel image (DCS 0;0;8 q) to the emulator that advertises sixel: emulator holds %d images, want 1", n)
	}
	// control: the emulator does implement sixel, for a bare DCS q only
	c.inW.Write([]byte("\x1bPq\"1;1;2;6#0;2;100;0;0#0~~\x1b\\"))
	c.settle(t)
	t.Logf("after a parameterless DCS q the emulator holds %d image(s)", emuImages(c))
}
