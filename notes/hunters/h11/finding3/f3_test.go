package demo

import (
	"testing"

	"git.sr.ht/~rockorager/vaxis"
)

// A wide character straddles the right edge of a window W (its left half is
// W's last column, its right half is the first column outside W). Drawing into
// W's last column changes the cell outside W as well, and a cell hidden under
// the wide character's right half (never drawn through W) becomes visible.
func TestOverwritingWideLeftHalfChangesOutsideCell(t *testing.T) {
	vx, fc, g := setup(t, 8, 1)
	root := vx.Window()
	root.Println(0, vaxis.Segment{Text: "........"})
	root.SetCell(2, 0, vaxis.Cell{Character: vaxis.Character{Grapheme: "Z", Width: 1}})
	root.SetCell(1, 0, vaxis.Cell{Character: vaxis.Character{Grapheme: "中", Width: 2}}) // cols 1-2
	vx.Render()
	g.feed(fc.take())
	before := g.snapshot()
	t.Logf("before: %q", lineOf(before[0]))

	w := root.New(0, 0, 2, 1) // absolute columns 0..1
	w.SetCell(1, 0, vaxis.Cell{Character: vaxis.Character{Grapheme: "x", Width: 1}})
	vx.Render()
	g.feed(fc.take())
	after := g.snapshot()
	t.Logf("after : %q", lineOf(after[0]))
	if out := changedOutside(before, after, 0, 0, 2, 1); len(out) > 0 {
		t.Fatalf("SetCell on window (cols 0..1) changed cells outside it: %v (col 2 went from %q to %q)", out, show(before[0][2]), show(after[0][2]))
	}
}

func show(s string) string {
	if s == "\x00" {
		return "right half of 中"
	}
	return s
}
