package demo

import (
	"bytes"
	"io"
	"os"
	"strings"
	"sync"
	"testing"

	"git.sr.ht/~rockorager/vaxis"
	"github.com/containerd/console"
	"github.com/mattn/go-runewidth"
)

// fakeConsole is an in-memory console: it answers DSR-CPR and DA1 and records
// everything written to it.
type fakeConsole struct {
	mu   sync.Mutex
	out  bytes.Buffer
	in   chan []byte
	done chan struct{}
	once sync.Once
	cols, rows int
	pend []byte
}

func newFake(cols, rows int) *fakeConsole {
	return &fakeConsole{in: make(chan []byte, 64), done: make(chan struct{}), cols: cols, rows: rows}
}
func (f *fakeConsole) Read(p []byte) (int, error) {
	if len(f.pend) == 0 {
		select {
		case b := <-f.in:
			f.pend = b
		case <-f.done:
			return 0, io.EOF
		}
	}
	n := copy(p, f.pend)
	f.pend = f.pend[n:]
	return n, nil
}
func (f *fakeConsole) Write(p []byte) (int, error) {
	f.mu.Lock()
	f.out.Write(p)
	f.mu.Unlock()
	s := string(p)
	if strings.Contains(s, "\x1b[6n") {
		f.in <- []byte("\x1b[1;1R")
	}
	if strings.Contains(s, "\x1b[c") {
		f.in <- []byte("\x1b[?62;22c")
	}
	return len(p), nil
}
func (f *fakeConsole) take() string {
	f.mu.Lock()
	defer f.mu.Unlock()
	s := f.out.String()
	f.out.Reset()
	return s
}
func (f *fakeConsole) Close() error                    { f.once.Do(func() { close(f.done) }); return nil }
func (f *fakeConsole) Fd() uintptr                     { return ^uintptr(0) }
func (f *fakeConsole) Name() string                    { return "fake" }
func (f *fakeConsole) Resize(console.WinSize) error    { return nil }
func (f *fakeConsole) ResizeFrom(console.Console) error { return nil }
func (f *fakeConsole) SetRaw() error                   { return nil }
func (f *fakeConsole) DisableEcho() error              { return nil }
func (f *fakeConsole) Reset() error                    { return nil }
func (f *fakeConsole) Size() (console.WinSize, error) {
	return console.WinSize{Width: uint16(f.cols), Height: uint16(f.rows)}, nil
}

// grid is a minimal reference terminal: CUP, printable runes with wcwidth
// widths (combining runes join the previous cell), everything else ignored.
// Writing over one half of a wide character blanks the other half.
type grid struct {
	cols, rows int
	cell       [][]string // "" = blank, "\x00" = right half of a wide char
	r, c       int
}

func newGrid(cols, rows int) *grid {
	g := &grid{cols: cols, rows: rows}
	g.cell = make([][]string, rows)
	for i := range g.cell {
		g.cell[i] = make([]string, cols)
		for j := range g.cell[i] {
			g.cell[i][j] = " "
		}
	}
	return g
}
func (g *grid) put(ch rune) {
	w := runewidth.RuneWidth(ch)
	if ch >= 0xFE00 && ch <= 0xFE0F {
		w = 0
	}
	if w == 0 {
		if g.c > 0 {
			p := g.c - 1
			if g.cell[g.r][p] == "\x00" && p > 0 {
				p--
			}
			g.cell[g.r][p] += string(ch)
		}
		return
	}
	if g.c+w > g.cols {
		return // no autowrap needed for these demos
	}
	// blank partner halves
	if g.cell[g.r][g.c] == "\x00" && g.c > 0 {
		g.cell[g.r][g.c-1] = " "
	}
	last := g.c + w - 1
	if last+1 < g.cols && g.cell[g.r][last+1] == "\x00" {
		g.cell[g.r][last+1] = " "
	}
	g.cell[g.r][g.c] = string(ch)
	for i := 1; i < w; i++ {
		g.cell[g.r][g.c+i] = "\x00"
	}
	g.c += w
}
func (g *grid) feed(s string) {
	rs := []rune(s)
	for i := 0; i < len(rs); i++ {
		ch := rs[i]
		if ch == 0x1b {
			if i+1 < len(rs) && rs[i+1] == '[' {
				j := i + 2
				for j < len(rs) && !(rs[j] >= 0x40 && rs[j] <= 0x7e) {
					j++
				}
				if j < len(rs) && rs[j] == 'H' {
					var a, b, n int
					ps := strings.Split(string(rs[i+2:j]), ";")
					for k, p := range ps {
						n = 0
						for _, d := range p {
							n = n*10 + int(d-'0')
						}
						if k == 0 {
							a = n
						} else {
							b = n
						}
					}
					if a < 1 { a = 1 }
					if b < 1 { b = 1 }
					g.r, g.c = a-1, b-1
				}
				i = j
				continue
			}
			if i+1 < len(rs) && (rs[i+1] == ']' || rs[i+1] == 'P' || rs[i+1] == '_') {
				j := i + 2
				for j < len(rs) && !(rs[j] == 0x07 || (rs[j] == 0x1b && j+1 < len(rs) && rs[j+1] == '\\')) {
					j++
				}
				if j < len(rs) && rs[j] == 0x1b {
					j++
				}
				i = j
				continue
			}
			i++
			continue
		}
		if ch < 0x20 || ch == 0x7f {
			continue
		}
		g.put(ch)
	}
}
func (g *grid) snapshot() [][]string {
	out := make([][]string, g.rows)
	for i := range out {
		out[i] = append([]string(nil), g.cell[i]...)
	}
	return out
}
func (g *grid) line(r int) string {
	var b strings.Builder
	for _, c := range g.cell[r] {
		if c == "\x00" {
			b.WriteString("<")
		} else {
			b.WriteString(c)
		}
	}
	return b.String()
}

func setup(t *testing.T, cols, rows int) (*vaxis.Vaxis, *fakeConsole, *grid) {
	for _, e := range os.Environ() {
		k := strings.SplitN(e, "=", 2)[0]
		if k == "COLORTERM" || strings.HasPrefix(k, "VAXIS_") {
			os.Unsetenv(k)
		}
	}
	fc := newFake(cols, rows)
	vx, err := vaxis.New(vaxis.Options{WithConsole: fc, NoSignals: true})
	if err != nil {
		t.Fatal(err)
	}
	t.Cleanup(vx.Close)
	w, h := vx.Window().Size()
	if w != cols || h != rows {
		// pick up the size
		vx.Resize()
		vx.Render()
		w, h = vx.Window().Size()
	}
	if w != cols || h != rows {
		t.Fatalf("screen is %dx%d, want %dx%d", w, h, cols, rows)
	}
	g := newGrid(cols, rows)
	vx.Window().Clear()
	vx.Render()
	g.feed(fc.take())
	return vx, fc, g
}

// changedOutside lists the cells that differ between two snapshots and lie
// outside the rectangle [c0,c1) x [r0,r1).
func changedOutside(a, b [][]string, c0, r0, c1, r1 int) []string {
	var out []string
	for r := range a {
		for c := range a[r] {
			if a[r][c] != b[r][c] && !(c >= c0 && c < c1 && r >= r0 && r < r1) {
				out = append(out, "("+itoa(c)+","+itoa(r)+")")
			}
		}
	}
	return out
}
func itoa(i int) string {
	if i == 0 {
		return "0"
	}
	s := ""
	for i > 0 {
		s = string(rune('0'+i%10)) + s
		i /= 10
	}
	return s
}
