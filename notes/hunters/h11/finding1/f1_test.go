package demo

import (
	"testing"

	"git.sr.ht/~rockorager/vaxis"
)

// A wide grapheme in a cell whose Width is left 0 ("let vaxis measure it",
// see the ParseStyledString doc) put in the last column of a child window.
func TestWidthZeroWideCellEscapesWindow(t *testing.T) {
	vx, fc, g := setup(t, 8, 2)
	root := vx.Window()
	root.Println(0, vaxis.Segment{Text: "........"})
	root.Println(1, vaxis.Segment{Text: "........"})
	vx.Render()
	g.feed(fc.take())
	before := g.snapshot()

	child := root.New(1, 0, 3, 1) // absolute columns 1..3 of row 0
	child.SetCell(2, 0, vaxis.Cell{Character: vaxis.Character{Grapheme: "中"}})
	vx.Render()
	g.feed(fc.take())
	after := g.snapshot()
	t.Logf("row 0 before: %q", g.line(0)[:0]+lineOf(before[0]))
	t.Logf("row 0 after : %q", lineOf(after[0]))
	if out := changedOutside(before, after, 1, 0, 4, 1); len(out) > 0 {
		t.Fatalf("cells outside the child window (cols 1..3, row 0) changed: %v", out)
	}
}

func lineOf(r []string) string {
	s := ""
	for _, c := range r {
		if c == "\x00" {
			s += "<"
		} else {
			s += c
		}
	}
	return s
}
