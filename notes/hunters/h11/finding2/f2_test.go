package demo

import (
	"testing"

	"git.sr.ht/~rockorager/vaxis"
)

// Wrap measures each cluster with the terminal-dependent width
// (vx.characterWidth) only into a loop copy ("for _, char := range chars {
// char.Width = ... }"); the cells it places and its column advance use the
// width Characters() returned (uniseg) instead. Print/Println/PrintTruncate use
// the terminal-dependent width for both. On a terminal without mode 2027 (the
// default fake console) the two measures differ.
func TestWrapIgnoresRenderedWidth(t *testing.T) {
	vx, fc, g := setup(t, 8, 2)
	root := vx.Window()
	dots := vaxis.Segment{Text: "........"}

	// (a) narrow symbol + combining variation selector (U+263A U+FE0F)
	const smile = "☺️"
	dw := vx.RenderedWidth(smile)
	probe := root.New(0, 1, 6, 1)
	pc, _ := probe.Print(vaxis.Segment{Text: smile})
	wc, _ := probe.Wrap(vaxis.Segment{Text: smile})
	t.Logf("display width of %q on this terminal per vx.RenderedWidth: %d; Print advanced %d, Wrap advanced %d", smile, dw, pc, wc)
	if wc != dw {
		t.Errorf("Wrap advanced by %d for a cluster of display width %d (Print: %d)", wc, dw, pc)
	}

	root.Println(0, dots)
	root.Println(1, dots)
	vx.Render()
	g.feed(fc.take())
	child := root.New(1, 0, 5, 1) // absolute columns 1..5 of row 0
	_, _ = child.Wrap(vaxis.Segment{Text: smile + "b"})
	vx.Render()
	g.feed(fc.take())
	t.Logf("row 0 after child.Wrap(%q): %q", smile+"b", lineOf(g.snapshot()[0]))
	// Wrap put 'b' at window column 2 => absolute column 3
	if got := g.snapshot()[0][3]; got != "b" {
		t.Errorf("Wrap placed 'b' at window column 2 (absolute 3) but the terminal shows %q there; row: %q", got, lineOf(g.snapshot()[0]))
	}

	// (b) containment: narrow letter + halfwidth voiced sound mark U+FF9E
	// (Grapheme_Extend, one cluster, display width 2 on this terminal)
	const cl = "aﾞ"
	if n := len(vaxis.Characters(cl)); n != 1 {
		t.Fatalf("expected one cluster, got %d", n)
	}
	// the same through Print stays inside
	root.Println(0, dots)
	vx.Render()
	g.feed(fc.take())
	before := g.snapshot()
	child = root.New(1, 0, 3, 1) // absolute columns 1..3 of row 0
	child.Print(vaxis.Segment{Text: "xy" + cl})
	vx.Render()
	g.feed(fc.take())
	after := g.snapshot()
	t.Logf("Print: row 0 %q, outside changes: %v", lineOf(after[0]), changedOutside(before, after, 1, 0, 4, 1))
	root.Println(0, dots)
	vx.Render()
	g.feed(fc.take())
	before = g.snapshot()
	child.Wrap(vaxis.Segment{Text: "xy" + cl})
	vx.Render()
	g.feed(fc.take())
	after = g.snapshot()
	t.Logf("vx.RenderedWidth(%q) = %d; row 0 after child.Wrap(\"xy\"+%q) in a 3-column window at column 1: %q", cl, vx.RenderedWidth(cl), cl, lineOf(after[0]))
	if out := changedOutside(before, after, 1, 0, 4, 1); len(out) > 0 {
		t.Errorf("Wrap changed cells outside the child window (cols 1..3, row 0): %v", out)
	}
}
