package demo

import (
	"os"
	"runtime"
	"strings"
	"testing"
	"time"

	"git.sr.ht/~rockorager/vaxis"
	"git.sr.ht/~rockorager/vaxis/widgets/spinner"
)

func TestSpinnerOutlivesClose(t *testing.T) {
	os.Unsetenv("COLORTERM")
	before := runtime.NumGoroutine()
	fc := newFake()
	vx, err := vaxis.New(vaxis.Options{WithConsole: fc, NoSignals: true})
	if err != nil {
		t.Fatal(err)
	}
	sp := spinner.New(vx, 5*time.Millisecond)
	sp.Start()
	redraws := 0
	for redraws < 3 {
		switch ev := vx.PollEvent().(type) {
		case vaxis.SyncFunc:
			ev()
		case vaxis.Redraw:
			redraws++
			sp.Draw(vx.Window())
			vx.Render()
		}
	}
	sp.Stop() // even asking it to stop before closing does not help
	vx.Close()
	time.Sleep(500 * time.Millisecond)
	buf := make([]byte, 1<<16)
	n := runtime.Stack(buf, true)
	for _, g := range strings.Split(string(buf[:n]), "\n\n") {
		if strings.Contains(g, "vaxis") && !strings.Contains(g, "TestSpinnerOutlivesClose(") {
			t.Errorf("library goroutine alive 500ms after Close returned:\n%s", g)
		}
	}
	if after := runtime.NumGoroutine(); after > before {
		t.Errorf("goroutines before New: %d, after Close: %d", before, after)
	}
}
