package demo

import (
	"os"
	"sync"
	"testing"
	"time"

	"git.sr.ht/~rockorager/vaxis"
)

// A helper goroutine issues terminal queries (cursor position) and posts
// events while the main goroutine draws, renders, suspends and resumes. Run
// with -race.
func TestResumeBesideQuery(t *testing.T) {
	os.Unsetenv("COLORTERM")
	fc := newFake()
	vx, err := vaxis.New(vaxis.Options{WithConsole: fc, NoSignals: true})
	if err != nil {
		t.Fatal(err)
	}
	stop := make(chan struct{})
	var wg sync.WaitGroup
	wg.Add(1)
	go func() {
		defer wg.Done()
		for {
			select {
			case <-stop:
				return
			default:
			}
			vx.CursorPosition()
			vx.PostEvent(vaxis.Redraw{})
		}
	}()
	deadline := time.Now().Add(2 * time.Second)
	for time.Now().Before(deadline) {
		for len(vx.Events()) > 0 {
			<-vx.Events()
		}
		vx.Window().Clear()
		vx.Render()
		vx.Suspend()
		vx.Resume()
	}
	close(stop)
	wg.Wait()
	vx.Close()
}
