package demo

import (
	"fmt"
	"os"
	"regexp"
	"sync"

	"github.com/containerd/console"
)

// fakeConsole is an in-memory terminal. It answers DSR-CPR, DA1 and the
// OSC 4/10/11 colour queries, every query exactly once, in the order asked.
type fakeConsole struct {
	mu     sync.Mutex
	cond   *sync.Cond
	in     []byte
	closed bool
}

func newFake() *fakeConsole {
	f := &fakeConsole{}
	f.cond = sync.NewCond(&f.mu)
	return f
}

var queryRe = regexp.MustCompile("\x1b\\[6n|\x1b\\[c|\x1b\\]4;(\\d+);\\?\x1b\\\\|\x1b\\]10;\\?\x07|\x1b\\]11;\\?\x07")

func (f *fakeConsole) Read(p []byte) (int, error) {
	f.mu.Lock()
	defer f.mu.Unlock()
	for len(f.in) == 0 && !f.closed {
		f.cond.Wait()
	}
	if len(f.in) == 0 {
		return 0, os.ErrClosed
	}
	n := copy(p, f.in)
	f.in = f.in[n:]
	return n, nil
}

func (f *fakeConsole) Inject(s string) {
	f.mu.Lock()
	f.in = append(f.in, s...)
	f.mu.Unlock()
	f.cond.Broadcast()
}

func (f *fakeConsole) Write(p []byte) (int, error) {
	for _, m := range queryRe.FindAllSubmatch(p, -1) {
		switch {
		case string(m[0]) == "\x1b[6n":
			f.Inject("\x1b[1;1R")
		case string(m[0]) == "\x1b[c":
			f.Inject("\x1b[?62;22c")
		case len(m[1]) > 0:
			var i int
			fmt.Sscanf(string(m[1]), "%d", &i)
			f.Inject(fmt.Sprintf("\x1b]4;%d;rgb:%02x%02x/%02x%02x/%02x%02x\x1b\\", i, i, i, i, i, i, i))
		case string(m[0]) == "\x1b]10;?\x07":
			f.Inject("\x1b]10;rgb:1111/2222/3333\x1b\\")
		case string(m[0]) == "\x1b]11;?\x07":
			f.Inject("\x1b]11;rgb:4444/5555/6666\x1b\\")
		}
	}
	return len(p), nil
}

func (f *fakeConsole) Close() error {
	f.mu.Lock()
	f.closed = true
	f.mu.Unlock()
	f.cond.Broadcast()
	return nil
}
func (f *fakeConsole) Fd() uintptr                      { return ^uintptr(0) }
func (f *fakeConsole) Name() string                     { return "fake" }
func (f *fakeConsole) Resize(console.WinSize) error     { return nil }
func (f *fakeConsole) ResizeFrom(console.Console) error { return nil }
func (f *fakeConsole) SetRaw() error                    { return nil }
func (f *fakeConsole) DisableEcho() error               { return nil }
func (f *fakeConsole) Reset() error                     { return nil }
func (f *fakeConsole) Size() (console.WinSize, error) {
	return console.WinSize{Width: 80, Height: 24}, nil
}
