package demo

import (
	"os"
	"testing"
	"time"

	"git.sr.ht/~rockorager/vaxis"
)

// A helper goroutine asks for the background colour; the terminal takes a
// moment to answer, and in that moment the main goroutine suspends (and later
// resumes) the application. The terminal does answer the query. The query
// must return: at the latest when Vaxis is closed.
func TestQueryAcrossSuspend(t *testing.T) {
	os.Unsetenv("COLORTERM")
	fc := newFake()
	vx, err := vaxis.New(vaxis.Options{WithConsole: fc, NoSignals: true})
	if err != nil {
		t.Fatal(err)
	}
	if !vx.CanReportBackgroundColor() {
		t.Fatal("OSC 11 should have been detected")
	}
	// sanity: with a prompt reply the query works
	if got := vx.QueryBackground(); got != vaxis.RGBColor(0x44, 0x55, 0x66) {
		t.Fatalf("QueryBackground = %v", got)
	}

	fc.mu.Lock()
	fc.slow11 = true
	fc.mu.Unlock()
	res := make(chan vaxis.Color, 1)
	go func() { res <- vx.QueryBackground() }()
	<-fc.saw11 // the query is on the wire, the reply is on its way

	if err := vx.Suspend(); err != nil { // returns fine
		t.Fatal(err)
	}
	if err := vx.Resume(); err != nil {
		t.Fatal(err)
	}
	fc.mu.Lock()
	fc.slow11 = false
	left := len(fc.in)
	fc.mu.Unlock()
	t.Logf("terminal has sent its OSC 11 reply; %d bytes of input left unread", left)

	failed := false
	select {
	case c := <-res:
		t.Logf("QueryBackground returned %v", c)
	case <-time.After(2 * time.Second):
		failed = true
		t.Errorf("QueryBackground still blocked 2s after Suspend/Resume although the terminal answered it")
	}
	done := make(chan struct{})
	go func() { vx.Close(); close(done) }()
	select {
	case <-done:
	case <-time.After(3 * time.Second):
		t.Fatal("Close did not return")
	}
	if failed {
		select {
		case <-res:
		case <-time.After(2 * time.Second):
			t.Errorf("QueryBackground still blocked 2s after Close returned: the caller is stuck forever")
		}
	}
}
