package demo

import (
	"os"
	"runtime"
	"strings"
	"sync"
	"sync/atomic"
	"testing"
	"time"

	"git.sr.ht/~rockorager/vaxis"
)

// Several goroutines (none of them the main goroutine) ask the terminal for
// palette colours while the main goroutine drains events. The terminal
// answers every query, correctly and in order. Every call must return, and
// return the colour of the index it asked for.
func TestConcurrentQueryColor(t *testing.T) {
	os.Unsetenv("COLORTERM")
	for _, k := range []string{"VAXIS_LOG_LEVEL", "VAXIS_GRAPHICS", "VAXIS_FORCE_UNICODE", "VAXIS_FORCE_WCWIDTH", "VAXIS_FORCE_LEGACY_SGR", "VAXIS_FORCE_XTWINOPS", "VAXIS_DISABLE_XTWINOPS"} {
		os.Unsetenv(k)
	}
	fc := newFake()
	vx, err := vaxis.New(vaxis.Options{WithConsole: fc, NoSignals: true})
	if err != nil {
		t.Fatal(err)
	}
	if !vx.CanReportColor() {
		t.Fatal("fake terminal should have been detected as OSC 4 capable")
	}
	// sanity: one query at a time works
	for _, i := range []uint8{1, 10, 200} {
		if got := vx.QueryColor(vaxis.IndexColor(i)); got != vaxis.RGBColor(i, i, i) {
			t.Fatalf("sequential QueryColor(%d) = %v", i, got)
		}
	}
	stop := make(chan struct{})
	go func() { // the application's main loop
		for {
			select {
			case <-vx.Events():
			case <-stop:
				return
			}
		}
	}()

	const G, N = 4, 20000
	var wrong, done int64
	var wg sync.WaitGroup
	for g := 0; g < G; g++ {
		wg.Add(1)
		idx := uint8(10 + g)
		go func() {
			defer wg.Done()
			want := vaxis.RGBColor(idx, idx, idx)
			for i := 0; i < N; i++ {
				if got := vx.QueryColor(vaxis.IndexColor(idx)); got != want {
					atomic.AddInt64(&wrong, 1)
				}
				atomic.AddInt64(&done, 1)
			}
		}()
	}
	fin := make(chan struct{})
	go func() { wg.Wait(); close(fin) }()
	last := int64(-1)
	for {
		select {
		case <-fin:
			close(stop)
			if wrong != 0 {
				t.Fatalf("%d of %d QueryColor calls returned another colour than the terminal reported for their index", wrong, G*N)
			}
			vx.Close()
			return
		case <-time.After(3 * time.Second):
			d := atomic.LoadInt64(&done)
			if d == last {
				buf := make([]byte, 1<<16)
				n := runtime.Stack(buf, true)
				for _, g := range strings.Split(string(buf[:n]), "\n\n") {
					if strings.Contains(g, "(*Vaxis).QueryColor") {
						t.Logf("stuck:\n%s", g)
					}
				}
				t.Fatalf("DEADLOCK: no QueryColor call returned for 3s (%d of %d calls done, %d wrong answers so far); every query was answered by the terminal", d, G*N, atomic.LoadInt64(&wrong))
			}
			last = d
		}
	}
}
