package demo

import (
	"bytes"
	"os"
	"sync"
	"testing"
	"time"

	"git.sr.ht/~rockorager/vaxis"
	"git.sr.ht/~rockorager/vaxis/vxfw"
	"git.sr.ht/~rockorager/vaxis/vxfw/textfield"
	"github.com/containerd/console"
)

type fake struct {
	mu     sync.Mutex
	cond   *sync.Cond
	in     bytes.Buffer
	closed bool
	acc    []byte
}

func newFake() *fake { f := &fake{}; f.cond = sync.NewCond(&f.mu); return f }
func (f *fake) Read(p []byte) (int, error) {
	f.mu.Lock()
	defer f.mu.Unlock()
	for f.in.Len() == 0 && !f.closed {
		f.cond.Wait()
	}
	if f.in.Len() == 0 {
		return 0, os.ErrClosed
	}
	return f.in.Read(p)
}
func (f *fake) Write(p []byte) (int, error) {
	f.mu.Lock()
	defer f.mu.Unlock()
	f.acc = append(f.acc, p...)
	for {
		i := bytes.Index(f.acc, []byte("\x1b[6n"))
		j := bytes.Index(f.acc, []byte("\x1b[c"))
		if i < 0 && j < 0 {
			break
		}
		if i >= 0 && (j < 0 || i < j) {
			f.in.WriteString("\x1b[1;1R")
			f.acc = f.acc[i+4:]
		} else {
			f.in.WriteString("\x1b[?62;22c")
			f.acc = f.acc[j+3:]
		}
		f.cond.Broadcast()
	}
	if len(f.acc) > 8 {
		f.acc = f.acc[len(f.acc)-8:]
	}
	return len(p), nil
}
func (f *fake) Close() error {
	f.mu.Lock()
	f.closed = true
	f.cond.Broadcast()
	f.mu.Unlock()
	return nil
}
func (f *fake) Fd() uintptr                      { return ^uintptr(0) }
func (f *fake) Name() string                     { return "fake" }
func (f *fake) Resize(console.WinSize) error     { return nil }
func (f *fake) ResizeFrom(console.Console) error { return nil }
func (f *fake) SetRaw() error                    { return nil }
func (f *fake) DisableEcho() error               { return nil }
func (f *fake) Reset() error                     { return nil }
func (f *fake) Size() (console.WinSize, error) {
	return console.WinSize{Height: 24, Width: 80}, nil
}
func (f *fake) feed(s string) {
	f.mu.Lock()
	f.in.WriteString(s)
	f.cond.Broadcast()
	f.mu.Unlock()
}

// pasteInto sends a bracketed paste through the real vaxis input parser and
// hands every resulting event to a TextField that already holds "xy".
func pasteInto(t *testing.T, pasted string) (tf *textfield.TextField, submits []string) {
	os.Unsetenv("COLORTERM")
	con := newFake()
	vx, err := vaxis.New(vaxis.Options{WithConsole: con})
	if err != nil {
		t.Fatal(err)
	}
	defer vx.Close()
	tf = textfield.New()
	tf.OnSubmit = func(s string) (vxfw.Command, error) { submits = append(submits, s); return nil, nil }
	tf.InsertStringAtCursor("xy")
	con.feed("\x1b[200~" + pasted + "\x1b[201~")
	deadline := time.After(3 * time.Second)
	for {
		select {
		case ev := <-vx.Events():
			if k, ok := ev.(vaxis.Key); ok {
				t.Logf("event Key %q EventType=%d (EventPaste=%d)", k.String(), k.EventType, vaxis.EventPaste)
			}
			tf.HandleEvent(ev, vxfw.TargetPhase)
			if _, ok := ev.(vaxis.PasteEndEvent); ok {
				return
			}
		case <-deadline:
			t.Fatal("timeout")
		}
	}
}

// A pasted line break is not the Enter key: no submit, nothing lost.
func TestPastedNewlineSubmitsAndResets(t *testing.T) {
	tf, submits := pasteInto(t, "ab\rcd")
	t.Logf("value=%q submits=%q", tf.Value, submits)
	if len(submits) != 0 {
		t.Errorf("OnSubmit fired with %q although Enter was never pressed", submits)
	}
	if tf.Value != "xyabcd" {
		t.Errorf("value %q: text typed before the paste and the first pasted line are gone (want %q)", tf.Value, "xyabcd")
	}
}

// Pasted control bytes are executed as editing commands: ^A ^K wipes the
// text that was in the field before the paste.
func TestPastedControlBytesDeleteExistingText(t *testing.T) {
	tf, _ := pasteInto(t, "\x01\x0bz")
	t.Logf("value=%q", tf.Value)
	if tf.Value != "xyz" {
		t.Errorf("value %q: a paste removed graphemes nobody addressed (want %q)", tf.Value, "xyz")
	}
}
