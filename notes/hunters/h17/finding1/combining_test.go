package demo

import (
	"testing"

	"git.sr.ht/~rockorager/vaxis"
	"git.sr.ht/~rockorager/vaxis/widgets/textinput"
	"github.com/rivo/uniseg"
)

// Type "e", then U+0301 (combining acute) as its own key event (dead-key /
// compose-less input, or any terminal that delivers the mark separately).
// The text is now the single grapheme "é". An ideal grapheme line editor has
// its cursor at grapheme index 1 (the end) and Left moves over the whole "é".
func TestTextinputCombiningMarkTypedSeparately(t *testing.T) {
	m := textinput.New()
	m.Update(vaxis.Key{Keycode: 'e', Text: "e"})
	m.Update(vaxis.Key{Keycode: 0x301, Text: "́"})
	n := uniseg.GraphemeClusterCount(m.String())
	t.Logf("text=%q graphemes=%d CursorPosition=%d len(Characters)=%d", m.String(), n, m.CursorPosition(), len(m.Characters()))
	if m.CursorPosition() != n {
		t.Errorf("cursor index %d, but the text %q has %d grapheme(s): cursor is outside the text", m.CursorPosition(), m.String(), n)
	}
	m.Update(vaxis.Key{Keycode: vaxis.KeyLeft})
	m.Update(vaxis.Key{Keycode: 'x', Text: "x"})
	t.Logf("after Left, type x: text=%q", m.String())
	if m.String() != "xé" {
		t.Errorf("Left moved by half a grapheme: got %q, want %q", m.String(), "xé")
	}
	// same through a paste bracket that delivers the mark on its own
	m = textinput.New()
	m.SetContent("e")
	m.Update(vaxis.PasteStartEvent{})
	m.Update(vaxis.Key{Keycode: 0x301, Text: "́", EventType: vaxis.EventPaste})
	m.Update(vaxis.PasteEndEvent{})
	m.Update(vaxis.Key{Keycode: vaxis.KeyBackspace})
	if m.String() != "" {
		t.Errorf("BackSpace after %q removed only part of the grapheme: %q left", "é", m.String())
	}
}
