package demo

import (
	"testing"

	"git.sr.ht/~rockorager/vaxis"
	"git.sr.ht/~rockorager/vaxis/vxfw"
	"git.sr.ht/~rockorager/vaxis/vxfw/textfield"
	"git.sr.ht/~rockorager/vaxis/widgets/textinput"
)

// SetContent with a TAB: the widget holds different text than it was given,
// and the cursor is at index 10 instead of 3.
func TestTextinputSetContentTab(t *testing.T) {
	m := textinput.New()
	m.SetContent("a\tb")
	t.Logf("String()=%q CursorPosition()=%d", m.String(), m.CursorPosition())
	if m.String() != "a\tb" {
		t.Errorf("String() = %q, want %q", m.String(), "a\tb")
	}
	if m.CursorPosition() != 3 {
		t.Errorf("cursor %d, want 3", m.CursorPosition())
	}
	// one BackSpace per grapheme must empty the line
	for i := 0; i < 3; i++ {
		m.Update(vaxis.Key{Keycode: vaxis.KeyBackspace})
	}
	if m.String() != "" {
		t.Errorf("after 3 BackSpaces %q is left", m.String())
	}
}

// TextField: the same TAB is one grapheme for the editor but eight cells for
// Draw, so the drawn cursor is not at the display width of the text before it.
func TestTextFieldTabCursorColumn(t *testing.T) {
	tf := textfield.New()
	tf.InsertStringAtCursor("\tx")
	tf.HandleEvent(vaxis.Key{Keycode: vaxis.KeyLeft}, vxfw.TargetPhase) // between TAB and x
	s, _ := tf.Draw(vxfw.DrawContext{Max: vxfw.Size{Width: 40, Height: 1}, Characters: vaxis.Characters})
	xcol := -1
	for i, c := range s.Buffer {
		if c.Grapheme == "x" {
			xcol = i
		}
	}
	t.Logf("x drawn at col %d, cursor at col %d", xcol, s.Cursor.Col)
	if int(s.Cursor.Col) != xcol {
		t.Errorf("cursor is before x in the text, but drawn at col %d while x is drawn at col %d", s.Cursor.Col, xcol)
	}
}
