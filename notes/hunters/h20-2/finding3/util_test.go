package demo

import "image"

func solid(w, h int) image.Image {
	img := image.NewRGBA(image.Rect(0, 0, w, h))
	for i := range img.Pix {
		img.Pix[i] = 255
	}
	return img
}
