package demo

import (
	"bytes"
	"encoding/base64"
	"image/png"
	"regexp"
	"strings"
	"testing"
	"time"
)

var (
	reTx    = regexp.MustCompile(`\x1b_Gf=100,i=(\d+),m=\d;([^\x1b]*)\x1b\\`)
	rePlace = regexp.MustCompile(`\x1b_Ga=p,i=(\d+),p=(\d+)`)
)

// pixel size of the image data last transmitted in out, (0, 0) if none
func transmitted(t *testing.T, out string) (int, int) {
	var b64 strings.Builder
	for _, m := range reTx.FindAllStringSubmatch(out, -1) {
		b64.WriteString(m[2])
	}
	if b64.Len() == 0 {
		return 0, 0
	}
	raw, err := base64.StdEncoding.DecodeString(b64.String())
	if err != nil {
		t.Fatal(err)
	}
	cfg, err := png.DecodeConfig(bytes.NewReader(raw))
	if err != nil {
		t.Fatal(err)
	}
	return cfg.Width, cfg.Height
}

// A banner of 2000x10 pixels on a terminal with 10x20 pixel cells. It is first
// shown 200 columns wide, then resized for a box of 10x1 cells and drawn into a
// 10x1 window. What the terminal shows in that window has to fit it.
func TestKittyBannerResizedToSmallBox(t *testing.T) {
	const cellW, cellH = 10, 20
	f := newFake(220, 30, 220*cellW, 30*cellH, true)
	vx := newVx(t, f)
	defer vx.Close()
	img := solid(2000, 10)
	k := vx.NewKittyGraphic(img)

	k.Resize(200, 1)
	time.Sleep(300 * time.Millisecond)
	win := vx.Window()
	win.Clear()
	k.Draw(win.New(0, 0, 200, 1))
	vx.Render()
	out := f.take()
	w1, h1 := transmitted(t, out)
	cw, ch := k.CellSize()
	t.Logf("frame 1: CellSize %dx%d, transmitted %dx%d px, placed: %v", cw, ch, w1, h1, rePlace.MatchString(out))

	k.Resize(10, 1)
	time.Sleep(300 * time.Millisecond)
	cw, ch = k.CellSize()
	win.Clear()
	k.Draw(win.New(0, 0, 10, 1))
	vx.Render()
	out = f.take()
	w2, h2 := transmitted(t, out)
	placed := rePlace.MatchString(out)
	t.Logf("frame 2: CellSize %dx%d, transmitted %dx%d px, placed: %v, output %q", cw, ch, w2, h2, placed, out)
	if placed {
		// the terminal displays the data it was last sent for this id
		pw, ph := w2, h2
		if pw == 0 {
			pw, ph = w1, h1
			t.Errorf("the image was resized (Resize(10, 1)) and placed again, but no new image data was transmitted")
		}
		cols, rows := (pw+cellW-1)/cellW, (ph+cellH-1)/cellH
		if cols > 10 || rows > 1 {
			t.Errorf("placement in a 10x1 window after Resize(10, 1) shows image data of %dx%d px = %dx%d cells (CellSize says %dx%d)", pw, ph, cols, rows, cw, ch)
		}
	}
}
