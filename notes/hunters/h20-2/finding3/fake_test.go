package demo

import (
	"bytes"
	"fmt"
	"io"
	"os"
	"sync"
	"testing"

	"git.sr.ht/~rockorager/vaxis"
	"github.com/containerd/console"
)

type fakeConsole struct {
	mu     sync.Mutex
	out    bytes.Buffer
	pr     *io.PipeReader
	pw     *io.PipeWriter
	cols   int
	rows   int
	xpix   int
	ypix   int
	kitty  bool
	closed bool
}

func newFake(cols, rows, xpix, ypix int, kitty bool) *fakeConsole {
	pr, pw := io.Pipe()
	return &fakeConsole{pr: pr, pw: pw, cols: cols, rows: rows, xpix: xpix, ypix: ypix, kitty: kitty}
}

func (f *fakeConsole) Read(p []byte) (int, error) { return f.pr.Read(p) }
func (f *fakeConsole) Write(p []byte) (int, error) {
	f.mu.Lock()
	f.out.Write(p)
	f.mu.Unlock()
	var reply string
	if bytes.Contains(p, []byte("\x1b[6n")) {
		reply += "\x1b[1;1R"
	}
	if bytes.Contains(p, []byte("\x1b[c")) {
		if f.xpix > 0 {
			reply += fmt.Sprintf("\x1b[48;%d;%d;%d;%dt", f.rows, f.cols, f.ypix, f.xpix)
		}
		if f.kitty {
			reply += "\x1b_Gi=1;OK\x1b\\"
		}
		reply += "\x1bP1+r524742=38\x1b\\"
		reply += "\x1b[?62;22c"
	}
	if reply != "" {
		go f.pw.Write([]byte(reply))
	}
	return len(p), nil
}
func (f *fakeConsole) inject(s string) { f.pw.Write([]byte(s)) }
func (f *fakeConsole) Close() error {
	f.pw.Close()
	return nil
}
func (f *fakeConsole) Fd() uintptr                        { return ^uintptr(0) }
func (f *fakeConsole) Name() string                       { return "fake" }
func (f *fakeConsole) Resize(console.WinSize) error       { return nil }
func (f *fakeConsole) ResizeFrom(console.Console) error   { return nil }
func (f *fakeConsole) SetRaw() error                      { return nil }
func (f *fakeConsole) DisableEcho() error                 { return nil }
func (f *fakeConsole) Reset() error                       { return nil }
func (f *fakeConsole) Size() (console.WinSize, error) {
	return console.WinSize{Width: uint16(f.cols), Height: uint16(f.rows)}, nil
}
func (f *fakeConsole) take() string {
	f.mu.Lock()
	defer f.mu.Unlock()
	s := f.out.String()
	f.out.Reset()
	return string(bytes.ReplaceAll([]byte(s), []byte{0}, nil))
}

func newVx(t testing.TB, f *fakeConsole) *vaxis.Vaxis {
	os.Unsetenv("COLORTERM")
	for _, k := range []string{"VAXIS_GRAPHICS", "VAXIS_LOG_LEVEL", "VAXIS_FORCE_LEGACY_SGR", "VAXIS_FORCE_WCWIDTH", "VAXIS_FORCE_UNICODE", "VAXIS_FORCE_XTWINOPS", "VAXIS_DISABLE_XTWINOPS"} {
		os.Unsetenv(k)
	}
	vx, err := vaxis.New(vaxis.Options{WithConsole: f, NoSignals: true})
	if err != nil {
		t.Fatal(err)
	}
	go func() {
		for range vx.Events() {
		}
	}()
	return vx
}
