package demo

import (
	"image"
	"image/color"
	"regexp"
	"testing"
)

func drawOne(t *testing.T, img image.Image, full bool) string {
	f := newFake(20, 10, 0, 0, false)
	vx := newVx(t, f)
	defer vx.Close()
	win := vx.Window()
	win.Clear()
	vx.Refresh()
	f.take()
	if full {
		i := vx.NewFullBlockImage(img)
		i.Resize(10, 5)
		i.Draw(win)
	} else {
		i := vx.NewHalfBlockImage(img)
		i.Resize(10, 5)
		i.Draw(win)
	}
	vx.Render()
	return f.take()
}

var bg = regexp.MustCompile(`48:2:(\d+:\d+:\d+)m`)

// One cell of a full block image covers two pixels. A pixel that is
// "transparent enough" (alpha < 50) is to be mapped to the default colour: it
// must not tint the cell.
func TestTransparentPixelDoesNotTintFullBlockCell(t *testing.T) {
	img := image.NewNRGBA(image.Rect(0, 0, 1, 2))
	img.SetNRGBA(0, 0, color.NRGBA{0, 255, 0, 49})  // green, transparent enough
	img.SetNRGBA(0, 1, color.NRGBA{255, 0, 0, 255}) // red, opaque
	half := drawOne(t, img, false)
	full := drawOne(t, img, true)
	t.Logf("half block output: %q", half)
	t.Logf("full block output: %q", full)
	m := bg.FindStringSubmatch(full)
	if m == nil {
		t.Fatalf("full block: no background colour written")
	}
	if m[1] != "255:0:0" {
		t.Errorf("full block cell over {green alpha 49, red opaque} has background %s; the only pixel that is not transparent enough is 255:0:0 (the half block image of the same source shows only red)", m[1])
	}

	img2 := image.NewNRGBA(image.Rect(0, 0, 1, 2))
	img2.SetNRGBA(0, 0, color.NRGBA{255, 255, 255, 255}) // white, opaque
	img2.SetNRGBA(0, 1, color.NRGBA{0, 0, 0, 0})         // fully transparent
	full2 := drawOne(t, img2, true)
	m = bg.FindStringSubmatch(full2)
	if m == nil || m[1] != "255:255:255" {
		t.Errorf("full block cell over {white opaque, fully transparent}: output %q, want background 255:255:255 (no source pixel is grey)", full2)
	}

	img3 := image.NewNRGBA(image.Rect(0, 0, 1, 2))
	img3.SetNRGBA(0, 0, color.NRGBA{255, 255, 255, 98}) // white, alpha 98 >= 50: not transparent enough
	img3.SetNRGBA(0, 1, color.NRGBA{0, 0, 0, 0})
	full3 := drawOne(t, img3, true)
	if bg.FindStringSubmatch(full3) == nil {
		t.Errorf("full block cell over {white alpha 98, fully transparent}: output %q: the cell is left in the default colour although its top pixel is not transparent enough (alpha 98 >= 50)", full3)
	}
}
