package demo

import (
	"fmt"
	"image"
	"image/color"
	"regexp"
	"testing"
)

// A half block image made from an image.NRGBA whose pixels all have the
// (straight, non-premultiplied) colour (v, v, v) at alpha a >= 50 (so the pixel
// is not "transparent enough") must show cells of colour (v, v, v): that is the
// colour of the source pixel. The image fits its box, so no scaling is involved.
func TestSemiTransparentPixelKeepsItsColour(t *testing.T) {
	f := newFake(20, 10, 0, 0, false)
	vx := newVx(t, f)
	defer vx.Close()
	re := regexp.MustCompile(`38:2:(\d+):(\d+):(\d+)m`)
	bad, total := 0, 0
	for a := 50; a <= 255; a++ {
		for _, v := range []int{1, 50, 100, 128, 200, 254, 255} {
			img := image.NewNRGBA(image.Rect(0, 0, 1, 2))
			img.SetNRGBA(0, 0, color.NRGBA{uint8(v), uint8(v), uint8(v), uint8(a)})
			img.SetNRGBA(0, 1, color.NRGBA{uint8(v), uint8(v), uint8(v), uint8(a)})
			// what the standard library recovers from the same color.Color
			std := color.NRGBAModel.Convert(img.At(0, 0)).(color.NRGBA)
			hb := vx.NewHalfBlockImage(img)
			hb.Resize(10, 5)
			win := vx.Window()
			win.Clear()
			hb.Draw(win)
			vx.Refresh()
			m := re.FindStringSubmatch(f.take())
			if m == nil {
				t.Fatalf("no foreground colour written for v=%d a=%d", v, a)
			}
			got := fmt.Sprintf("%s,%s,%s", m[1], m[2], m[3])
			want := fmt.Sprintf("%d,%d,%d", v, v, v)
			total++
			if got != want {
				bad++
				if bad <= 8 {
					t.Errorf("source pixel NRGBA(%s) alpha %d drawn as (%s); image/color recovers (%d,%d,%d)", want, a, got, std.R, std.G, std.B)
				}
			}
		}
	}
	if bad > 0 {
		t.Errorf("%d of %d (colour, alpha) pairs drawn with a colour that is not the source pixel's", bad, total)
	}
}
