package demo

import (
	"bytes"
	"io"
	"os"
	"reflect"
	"sync"
	"unsafe"

	"git.sr.ht/~rockorager/vaxis"
	"github.com/containerd/console"
)

// fakeCon is an in-memory console.Console.
type fakeCon struct {
	mu     sync.Mutex
	cond   *sync.Cond
	in     []byte
	closed bool
	w, h   uint16
}

func newFake(w, h int) *fakeCon {
	c := &fakeCon{w: uint16(w), h: uint16(h)}
	c.cond = sync.NewCond(&c.mu)
	return c
}
func (c *fakeCon) Read(p []byte) (int, error) {
	c.mu.Lock()
	defer c.mu.Unlock()
	for len(c.in) == 0 && !c.closed {
		c.cond.Wait()
	}
	if len(c.in) == 0 {
		return 0, io.EOF
	}
	n := copy(p, c.in)
	c.in = c.in[n:]
	return n, nil
}
func (c *fakeCon) Write(p []byte) (int, error) {
	c.mu.Lock()
	defer c.mu.Unlock()
	if bytes.Contains(p, []byte("\x1b[6n")) {
		c.in = append(c.in, "\x1b[1;1R"...)
	}
	if bytes.Contains(p, []byte("\x1b[c")) {
		c.in = append(c.in, "\x1b[?62;22c"...)
	}
	c.cond.Broadcast()
	return len(p), nil
}
func (c *fakeCon) Close() error {
	c.mu.Lock()
	c.closed = true
	c.cond.Broadcast()
	c.mu.Unlock()
	return nil
}
func (c *fakeCon) Fd() uintptr                       { return ^uintptr(0) }
func (c *fakeCon) Name() string                      { return "fake" }
func (c *fakeCon) Resize(console.WinSize) error      { return nil }
func (c *fakeCon) ResizeFrom(console.Console) error  { return nil }
func (c *fakeCon) SetRaw() error                     { return nil }
func (c *fakeCon) DisableEcho() error                { return nil }
func (c *fakeCon) Reset() error                      { return nil }
func (c *fakeCon) Size() (console.WinSize, error) {
	return console.WinSize{Width: c.w, Height: c.h}, nil
}

func newVx(w, h int) (*vaxis.Vaxis, error) {
	os.Unsetenv("COLORTERM")
	for _, e := range os.Environ() {
		if len(e) > 6 && e[:6] == "VAXIS_" {
			os.Unsetenv(e[:bytes.IndexByte([]byte(e), '=')])
		}
	}
	return vaxis.New(vaxis.Options{WithConsole: newFake(w, h)})
}

// screenCells reads the cells Draw calls have put into the next frame.
func screenCells(vx *vaxis.Vaxis) [][]vaxis.Cell {
	f := reflect.ValueOf(vx).Elem().FieldByName("screenNext")
	scr := reflect.NewAt(f.Type(), unsafe.Pointer(f.UnsafeAddr())).Elem().Elem()
	b := scr.FieldByName("buf")
	return *(*[][]vaxis.Cell)(unsafe.Pointer(b.UnsafeAddr()))
}

// rowsOf returns the text of rows [0,h) of the sub-window at (0,0) of width w.
func rowsOf(vx *vaxis.Vaxis, w, h int) []string {
	buf := screenCells(vx)
	var out []string
	for r := 0; r < h && r < len(buf); r++ {
		s := ""
		for c := 0; c < w && c < len(buf[r]); {
			cell := buf[r][c]
			g := cell.Grapheme
			if g == "" {
				g = " "
			}
			s += g
			if cell.Width > 1 {
				c += cell.Width
			} else {
				c++
			}
		}
		out = append(out, s)
	}
	return out
}
