package demo

import (
	"reflect"
	"testing"

	"git.sr.ht/~rockorager/vaxis"
	"git.sr.ht/~rockorager/vaxis/widgets/pager"
)

// A line whose width is exactly the window width, followed by its line
// terminator, is laid out as two rows: the line and a row that is not in the
// text at all.

// Two lines that both fit a 3x2 window exactly must both be shown.
func TestTwoFullWidthLinesFitTheWindow(t *testing.T) {
	vx, err := newVx(20, 10)
	if err != nil {
		t.Fatal(err)
	}
	defer vx.Close()
	win := vx.Window()
	win.Clear()
	sub := win.New(0, 0, 3, 2)
	m := &pager.Model{Segments: []vaxis.Segment{{Text: "abc\ndef"}}}
	m.Draw(sub)
	got := rowsOf(vx, 3, 2)
	want := []string{"abc", "def"}
	if !reflect.DeepEqual(got, want) {
		t.Errorf("text %q in a 3x2 window: rows %q, want %q", "abc\ndef", got, want)
	}
}

// The text is one line of three columns. In a 3x1 window there is nothing to
// scroll to: the offset must be clamped to 0 and the line stay on screen.
func TestOffsetClampedToTheSingleLine(t *testing.T) {
	vx, err := newVx(20, 10)
	if err != nil {
		t.Fatal(err)
	}
	defer vx.Close()
	win := vx.Window()
	sub := win.New(0, 0, 3, 1)
	m := &pager.Model{Segments: []vaxis.Segment{{Text: "abc\n"}}}
	win.Clear()
	m.Draw(sub)
	m.ScrollDown()
	win.Clear()
	m.Draw(sub)
	got := rowsOf(vx, 3, 1)
	if m.Offset != 0 || got[0] != "abc" {
		t.Errorf("text %q in a 3x1 window after ScrollDown+Draw: Offset=%d row %q, want Offset=0 row %q", "abc\n", m.Offset, got[0], "abc")
	}
	// the same text one column wider behaves
	sub = win.New(0, 0, 4, 1)
	m = &pager.Model{Segments: []vaxis.Segment{{Text: "abc\n"}}}
	m.ScrollDown()
	win.Clear()
	m.Draw(sub)
	if got := rowsOf(vx, 4, 1); m.Offset != 0 || got[0] != "abc " {
		t.Errorf("control (width 4): Offset=%d row %q", m.Offset, got[0])
	}
}
