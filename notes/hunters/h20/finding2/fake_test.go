package demo

import (
	"bytes"
	"fmt"
	"os"
	"regexp"
	"strconv"
	"strings"
	"sync"
	"testing"
	"unicode/utf8"

	"git.sr.ht/~rockorager/vaxis"
	"github.com/containerd/console"
)

// fakeConsole is an in-memory console.Console
type fakeConsole struct {
	mu   sync.Mutex
	out  bytes.Buffer
	in   chan []byte
	done chan struct{}
	once sync.Once
	cols, rows uint16
	pix bool
}

func newFake(cols, rows int) *fakeConsole {
	return &fakeConsole{in: make(chan []byte, 64), done: make(chan struct{}), cols: uint16(cols), rows: uint16(rows)}
}

func (f *fakeConsole) Read(p []byte) (int, error) {
	select {
	case b := <-f.in:
		return copy(p, b), nil
	case <-f.done:
		return 0, fmt.Errorf("closed")
	}
}

func (f *fakeConsole) Write(p []byte) (int, error) {
	f.mu.Lock()
	f.out.Write(p)
	f.mu.Unlock()
	s := string(p)
	if f.pix && strings.Contains(s, "\x1b[?2048h") {
		f.in <- []byte(fmt.Sprintf("\x1b[48;%d;%d;%d;%dt", f.rows, f.cols, int(f.rows)*20, int(f.cols)*10))
	}
	if strings.Contains(s, "\x1b[6n") {
		f.in <- []byte("\x1b[1;1R")
	}
	if strings.Contains(s, "\x1b[c") {
		f.in <- []byte("\x1b[?62;22c")
	}
	return len(p), nil
}
func (f *fakeConsole) Close() error                      { f.once.Do(func() { close(f.done) }); return nil }
func (f *fakeConsole) Fd() uintptr                       { return ^uintptr(0) }
func (f *fakeConsole) Name() string                      { return "fake" }
func (f *fakeConsole) Resize(console.WinSize) error      { return nil }
func (f *fakeConsole) ResizeFrom(console.Console) error  { return nil }
func (f *fakeConsole) SetRaw() error                     { return nil }
func (f *fakeConsole) DisableEcho() error                { return nil }
func (f *fakeConsole) Reset() error                      { return nil }
func (f *fakeConsole) Size() (console.WinSize, error) {
	return console.WinSize{Width: f.cols, Height: f.rows}, nil
}
func (f *fakeConsole) take() string {
	f.mu.Lock()
	defer f.mu.Unlock()
	s := f.out.String()
	f.out.Reset()
	return s
}

func newVx(t *testing.T, cols, rows int) (*vaxis.Vaxis, *fakeConsole) {
	for _, e := range os.Environ() {
		k := strings.SplitN(e, "=", 2)[0]
		if strings.HasPrefix(k, "VAXIS_") {
			os.Unsetenv(k)
		}
	}
	os.Setenv("COLORTERM", "truecolor")
	fc := newFake(cols, rows)
	vx, err := vaxis.New(vaxis.Options{WithConsole: fc, NoSignals: true})
	if err != nil {
		t.Fatal(err)
	}
	// wait for truecolor event etc to be processed
	for i := 0; i < 10; i++ {
		if ev := vx.PollEvent(); ev != nil {
			if _, ok := ev.(vaxis.Resize); ok {
				break
			}
		}
	}
	return vx, fc
}

type tcell struct {
	ch     string
	fg, bg string
}

var csiRe = regexp.MustCompile(`^\x1b\[([0-9;:?<>=]*)([A-Za-z])`)

// interpret applies terminal output to a grid
func interpret(grid map[[2]int]tcell, s string) {
	row, col := 0, 0
	fg, bg := "", ""
	for len(s) > 0 {
		if s[0] == 0x1b {
			if m := csiRe.FindStringSubmatch(s); m != nil {
				s = s[len(m[0]):]
				switch m[2] {
				case "H":
					ps := strings.Split(m[1], ";")
					if len(ps) == 2 {
						row, _ = strconv.Atoi(ps[0])
						col, _ = strconv.Atoi(ps[1])
						row--
						col--
					} else {
						row, col = 0, 0
					}
				case "m":
					switch {
					case m[1] == "" || m[1] == "0":
						fg, bg = "", ""
					case m[1] == "39":
						fg = ""
					case m[1] == "49":
						bg = ""
					case strings.HasPrefix(m[1], "38:"):
						fg = m[1][3:]
					case strings.HasPrefix(m[1], "48:"):
						bg = m[1][3:]
					}
				}
				continue
			}
			// other escape (OSC, APC, DCS ..): skip to ST or BEL
			if len(s) > 1 && (s[1] == ']' || s[1] == '_' || s[1] == 'P') {
				i := strings.Index(s, "\x1b\\")
				j := strings.Index(s, "\x07")
				switch {
				case i >= 0 && (j < 0 || i < j):
					s = s[i+2:]
				case j >= 0:
					s = s[j+1:]
				default:
					s = ""
				}
				continue
			}
			if len(s) > 1 {
				s = s[2:]
			} else {
				s = ""
			}
			continue
		}
		r, n := utf8.DecodeRuneInString(s)
		s = s[n:]
		if r < 0x20 {
			continue
		}
		grid[[2]int{col, row}] = tcell{ch: string(r), fg: fg, bg: bg}
		col++
	}
}
