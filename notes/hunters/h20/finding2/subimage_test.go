package demo

import (
	"image"
	"image/color"
	"testing"

	"git.sr.ht/~rockorager/vaxis"
)

// An image whose Bounds().Min is not (0,0) (any SubImage / crop) is a legal
// image.Image. Here: a 2x2 pixel crop, i.e. 2x1 cells for a block renderer.
func crop() image.Image {
	src := image.NewRGBA(image.Rect(0, 0, 8, 8))
	for y := 0; y < 8; y++ {
		for x := 0; x < 8; x++ {
			src.Set(x, y, color.RGBA{uint8(30 * x), uint8(30 * y), 7, 255})
		}
	}
	return src.SubImage(image.Rect(4, 4, 6, 6))
}

func TestSubImageCellSize(t *testing.T) {
	var vx *vaxis.Vaxis // Resize/CellSize of block images do not use it
	for _, box := range [][2]int{{10, 10}, {3, 3}, {2, 1}} {
		for name, im := range map[string]vaxis.Image{
			"half": vx.NewHalfBlockImage(crop()),
			"full": vx.NewFullBlockImage(crop()),
		} {
			im.Resize(box[0], box[1])
			w, h := im.CellSize()
			if w > 2 || h > 1 {
				t.Errorf("%s block: 2x2 px image (2x1 cells) in box %dx%d -> CellSize %dx%d: upscaled", name, box[0], box[1], w, h)
			}
		}
	}
}

func TestSubImagePixels(t *testing.T) {
	vx, fc := newVx(t, 20, 10)
	defer vx.Close()
	vx.Window().Clear()
	vx.Render()
	fc.take()
	hb := vx.NewHalfBlockImage(crop())
	hb.Resize(10, 10)
	hb.Draw(vx.Window())
	vx.Render()
	got := map[[2]int]tcell{}
	interpret(got, fc.take())
	want := map[[2]int]tcell{
		{0, 0}: {"▀", "2:120:120:7", "2:120:150:7"},
		{1, 0}: {"▀", "2:150:120:7", "2:150:150:7"},
	}
	for k, w := range want {
		if got[k] != w {
			t.Errorf("cell %v: got %+v want %+v", k, got[k], w)
		}
	}
	for k, c := range got {
		if _, ok := want[k]; !ok {
			t.Errorf("cell %v written (%+v) but the 2x1-cell image drawn at the window origin does not cover it", k, c)
		}
	}
}
