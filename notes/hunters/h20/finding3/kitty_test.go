package demo

import (
	"image"
	"image/color"
	"math/rand"
	"os"
	"strings"
	"testing"
	"time"

	"git.sr.ht/~rockorager/vaxis"
)

func waitRedraw(t *testing.T, vx *vaxis.Vaxis) {
	deadline := time.After(20 * time.Second)
	for {
		select {
		case ev := <-vx.Events():
			if _, ok := ev.(vaxis.Redraw); ok {
				return
			}
		case <-deadline:
			t.Fatal("no Redraw")
		}
	}
}

func TestKittyDoubleResize(t *testing.T) {
	os.Unsetenv("COLORTERM")
	fc := newFake(100, 50)
	fc.pix = true
	vx, err := vaxis.New(vaxis.Options{WithConsole: fc, NoSignals: true})
	if err != nil {
		t.Fatal(err)
	}
	defer vx.Close()
	time.Sleep(100 * time.Millisecond)
	// noisy 1000x1000 px source = 100x50 cells of 10x20 px
	src := image.NewRGBA(image.Rect(0, 0, 1000, 1000))
	r := rand.New(rand.NewSource(1))
	for y := 0; y < 1000; y++ {
		for x := 0; x < 1000; x++ {
			src.Set(x, y, color.RGBA{uint8(r.Intn(256)), uint8(r.Intn(256)), uint8(r.Intn(256)), 255})
		}
	}
	k := vx.NewKittyGraphic(src)
	win := vx.Window()
	win.Clear()
	vx.Render()
	fc.take()

	k.Resize(1, 1)    // fast: 10x10 px result
	k.Resize(100, 50) // slow: 1000x1000 px noisy PNG
	var sent []int
	frames := 0
	for {
		quiet := false
		select {
		case ev := <-vx.Events():
			if _, ok := ev.(vaxis.Redraw); !ok {
				continue
			}
		case <-time.After(5 * time.Second):
			quiet = true
		}
		if quiet {
			break
		}
		win.Clear()
		k.Draw(win)
		vx.Render()
		out := fc.take()
		frames++
		cw, ch := k.CellSize()
		n := strings.Count(out, "\x1b_Gf=100")
		t.Logf("frame %d: CellSize %dx%d, image transmissions chunks: %d, placements: %d, bytes %d", frames, cw, ch, n, strings.Count(out, "\x1b_Ga=p"), len(out))
		if n > 0 {
			sent = append(sent, len(out))
		}
	}
	cw, ch := k.CellSize()
	total := 0
	for _, n := range sent {
		total += n
	}
	// a 1000x1000 noise PNG is > 1MB in base64
	if total < 1000000 {
		t.Errorf("image claims %dx%d cells (1000x1000 px of noise) but only %d bytes were ever transmitted: the terminal still shows the 1x1-cell encoding of the first Resize", cw, ch, total)
	}
}
