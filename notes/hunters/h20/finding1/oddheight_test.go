package demo

import (
	"image"
	"image/color"
	"testing"

)

// draw renders a half-block image that already fits its box at the origin of
// a 20x10 screen and returns the cells the terminal received.
func draw(t *testing.T, img image.Image) map[[2]int]tcell {
	vx, fc := newVx(t, 20, 10)
	defer vx.Close()
	vx.Window().Clear()
	vx.Render()
	fc.take()
	hb := vx.NewHalfBlockImage(img)
	hb.Resize(5, 5)
	if w, h := hb.CellSize(); w != 1 || h != 1 {
		t.Fatalf("CellSize %dx%d, want 1x1", w, h)
	}
	hb.Draw(vx.Window())
	vx.Render()
	grid := map[[2]int]tcell{}
	interpret(grid, fc.take())
	return grid
}

// A 1x1 pixel image (odd height) covers the upper half of one cell. The lower
// half covers no source pixel and must keep the default colour, as it does
// for *image.RGBA / *image.NRGBA sources.
func TestOddHeightHalfBlock(t *testing.T) {
	rgba := image.NewRGBA(image.Rect(0, 0, 1, 1))
	rgba.Set(0, 0, color.RGBA{0, 0, 255, 255})

	pal := image.NewPaletted(image.Rect(0, 0, 1, 1), color.Palette{color.RGBA{255, 0, 0, 255}, color.RGBA{0, 0, 255, 255}})
	pal.SetColorIndex(0, 0, 1) // the only pixel is blue; red is never used

	gray := image.NewGray(image.Rect(0, 0, 1, 1))
	gray.SetGray(0, 0, color.Gray{200})

	ycc := image.NewYCbCr(image.Rect(0, 0, 1, 1), image.YCbCrSubsampleRatio444) // what image/jpeg decodes to
	ycc.Y[0], ycc.Cb[0], ycc.Cr[0] = 200, 128, 128

	for _, tc := range []struct {
		name string
		img  image.Image
		fg   string
	}{
		{"RGBA", rgba, "2:0:0:255"},
		{"Paletted", pal, "2:0:0:255"},
		{"Gray", gray, "2:200:200:200"},
		{"YCbCr", ycc, "2:200:200:200"},
	} {
		g := draw(t, tc.img)
		c := g[[2]int{0, 0}]
		if len(g) != 1 || c.ch != "▀" || c.fg != tc.fg || c.bg != "" {
			t.Errorf("%s 1x1 image: got cells %+v; want exactly one cell {▀ fg=%s bg=default}", tc.name, g, tc.fg)
		}
	}
}
