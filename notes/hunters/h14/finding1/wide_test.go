package demo

import (
	"testing"

	"git.sr.ht/~rockorager/vaxis/vxfw"
	"git.sr.ht/~rockorager/vaxis/vxfw/text"
)

// A container with two overlapping children: the text "你好" at (0,0), z 0,
// and the text "x" at (1,0), z 1, i.e. on the right half of 你.
func TestChildOverRightHalfOfWideCell(t *testing.T) {
	root := &rootW{}
	root.draw = func(ctx vxfw.DrawContext) (vxfw.Surface, error) {
		s := vxfw.NewSurface(ctx.Max.Width, ctx.Max.Height, root)
		low, _ := text.New("你好").Draw(ctx)
		top, _ := text.New("x").Draw(ctx)
		s.AddChild(0, 0, low)
		s.AddChild(1, 0, top)
		s.Children[1].ZIndex = 1
		return s, nil
	}
	g := runApp(t, 10, 2, root)
	t.Logf("%q", rowsOf(g))
	if g[0][1] != 'x' {
		t.Fatalf("cell (1,0) shows %q, want 'x': the child with the higher z-index is at offset (1,0)", g[0][1])
	}
}
