package demo

import (
	"testing"

	"git.sr.ht/~rockorager/vaxis"
	"git.sr.ht/~rockorager/vaxis/vxfw"
)

func cellOf(r rune) vaxis.Cell {
	return vaxis.Cell{Character: vaxis.Character{Grapheme: string(r), Width: 1}}
}

// 13 children, all 1x1 at (0,0); child i paints 'A'+i with the z-index zs[i].
func TestZOrderEqualIndex(t *testing.T) {
	zs := []int{2, 0, 2, 2, 1, 0, 1, 2, 1, 0, 2, 1, 0}
	root := &rootW{}
	root.draw = func(ctx vxfw.DrawContext) (vxfw.Surface, error) {
		s := vxfw.NewSurface(ctx.Max.Width, ctx.Max.Height, root)
		for i, z := range zs {
			ch := vxfw.NewSurface(1, 1, root)
			ch.WriteCell(0, 0, cellOf(rune('A'+i)))
			s.AddChild(0, 0, ch)
			s.Children[i].ZIndex = z
		}
		return s, nil
	}
	g := runApp(t, 10, 3, root)
	t.Logf("%q", rowsOf(g))
	// highest z is 2: children A C D H K. K was added last.
	if g[0][0] != 'K' {
		t.Fatalf("cell (0,0) shows %q, want 'K' (the last added child among those with the highest z-index)", g[0][0])
	}
}
