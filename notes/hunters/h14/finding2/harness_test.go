package demo

import (
	"bytes"
	"os"
	"strconv"
	"sync"
	"testing"
	"time"

	"git.sr.ht/~rockorager/vaxis"
	"git.sr.ht/~rockorager/vaxis/vxfw"
	"github.com/containerd/console"
)

// fakeConsole is an in-memory console answering the queries vaxis needs.
type fakeConsole struct {
	mu   sync.Mutex
	out  bytes.Buffer
	in   chan []byte
	rest []byte
	w, h uint16
	done chan struct{}
	once sync.Once
}

func newFake(w, h uint16) *fakeConsole {
	return &fakeConsole{in: make(chan []byte, 1024), w: w, h: h, done: make(chan struct{})}
}
func (f *fakeConsole) Read(p []byte) (int, error) {
	if len(f.rest) == 0 {
		select {
		case b := <-f.in:
			f.rest = b
		case <-f.done:
			return 0, os.ErrClosed
		}
	}
	n := copy(p, f.rest)
	f.rest = f.rest[n:]
	return n, nil
}
func (f *fakeConsole) Write(p []byte) (int, error) {
	f.mu.Lock()
	f.out.Write(p)
	f.mu.Unlock()
	for i := 0; i < bytes.Count(p, []byte("\x1b[6n")); i++ {
		f.in <- []byte("\x1b[1;1R")
	}
	for i := 0; i < bytes.Count(p, []byte("\x1b[c")); i++ {
		f.in <- []byte("\x1b[?62;22c")
	}
	return len(p), nil
}
func (f *fakeConsole) Close() error                     { f.once.Do(func() { close(f.done) }); return nil }
func (f *fakeConsole) Fd() uintptr                      { return ^uintptr(0) }
func (f *fakeConsole) Name() string                     { return "fake" }
func (f *fakeConsole) Resize(console.WinSize) error     { return nil }
func (f *fakeConsole) ResizeFrom(console.Console) error { return nil }
func (f *fakeConsole) SetRaw() error                    { return nil }
func (f *fakeConsole) DisableEcho() error               { return nil }
func (f *fakeConsole) Reset() error                     { return nil }
func (f *fakeConsole) Size() (console.WinSize, error) {
	return console.WinSize{Width: f.w, Height: f.h}, nil
}

// screenOf replays the output (CUP + printable ASCII/UTF-8 single width) on a grid.
func screenOf(out []byte, w, h int) [][]rune {
	g := make([][]rune, h)
	for i := range g {
		g[i] = make([]rune, w)
		for j := range g[i] {
			g[i][j] = ' '
		}
	}
	row, col := 0, 0
	rs := []rune(string(out))
	for i := 0; i < len(rs); i++ {
		r := rs[i]
		if r == 0x1b {
			if i+1 >= len(rs) {
				break
			}
			switch rs[i+1] {
			case '[':
				j := i + 2
				for j < len(rs) && !(rs[j] >= 0x40 && rs[j] <= 0x7e) {
					j++
				}
				if j < len(rs) {
					params := string(rs[i+2 : j])
					switch rs[j] {
					case 'H':
						parts := bytes.Split([]byte(params), []byte(";"))
						rr, cc := 1, 1
						if len(parts) > 0 && len(parts[0]) > 0 {
							rr, _ = strconv.Atoi(string(parts[0]))
						}
						if len(parts) > 1 && len(parts[1]) > 0 {
							cc, _ = strconv.Atoi(string(parts[1]))
						}
						row, col = rr-1, cc-1
					}
				}
				i = j
			case ']', 'P', '_':
				j := i + 2
				for j < len(rs) {
					if rs[j] == 0x07 {
						break
					}
					if rs[j] == 0x1b && j+1 < len(rs) && rs[j+1] == '\\' {
						j++
						break
					}
					j++
				}
				i = j
			default:
				i++
			}
			continue
		}
		if r < 0x20 {
			continue
		}
		if row >= 0 && row < h && col >= 0 && col < w {
			g[row][col] = r
		}
		col++
		if r >= 0x1100 {
			// East Asian wide: the terminal covers the next column too
			if row >= 0 && row < h && col >= 0 && col < w {
				g[row][col] = '<'
			}
			col++
		}
	}
	return g
}

type rootW struct {
	draw func(ctx vxfw.DrawContext) (vxfw.Surface, error)
}

type quitEv struct{}

func (r *rootW) HandleEvent(ev vaxis.Event, ph vxfw.EventPhase) (vxfw.Command, error) {
	switch ev.(type) {
	case vxfw.Init:
		return vxfw.RedrawCmd{}, nil
	case quitEv:
		return vxfw.QuitCmd{}, nil
	}
	return nil, nil
}
func (r *rootW) Draw(ctx vxfw.DrawContext) (vxfw.Surface, error) { return r.draw(ctx) }

// runApp runs root in an App on a w x h fake console and returns the screen painted.
func runApp(t testing.TB, w, h uint16, root vxfw.Widget) [][]rune {
	os.Unsetenv("COLORTERM")
	for _, k := range []string{"VAXIS_FORCE_LEGACY_SGR", "VAXIS_FORCE_WCWIDTH", "VAXIS_FORCE_UNICODE", "VAXIS_FORCE_NOZWJ", "VAXIS_FORCE_XTWINOPS", "VAXIS_DISABLE_NOZWJ", "VAXIS_LOG_LEVEL"} {
		os.Unsetenv(k)
	}
	fc := newFake(w, h)
	app, err := vxfw.NewApp(vaxis.Options{WithConsole: fc, DisableMouse: true})
	if err != nil {
		t.Fatal(err)
	}
	go func() {
		time.Sleep(300 * time.Millisecond)
		app.PostEvent(quitEv{})
	}()
	if err := app.Run(root); err != nil {
		t.Fatal(err)
	}
	fc.mu.Lock()
	defer fc.mu.Unlock()
	return screenOf(fc.out.Bytes(), int(w), int(h))
}

func rowsOf(g [][]rune) []string {
	var s []string
	for _, r := range g {
		s = append(s, string(r))
	}
	return s
}
