package demo

import (
	"strings"
	"testing"

	"git.sr.ht/~rockorager/vaxis"
	"git.sr.ht/~rockorager/vaxis/vxfw"
	"git.sr.ht/~rockorager/vaxis/vxfw/textfield"
)

func TestTextFieldLongValue(t *testing.T) {
	tf := textfield.New()
	tf.InsertStringAtCursor("HEAD" + strings.Repeat("-", 65536-4) + "TAIL")
	tf.CursorTo(2)
	s, err := tf.Draw(vxfw.DrawContext{Max: vxfw.Size{Width: 10, Height: 1}, Characters: vaxis.Characters})
	if err != nil {
		t.Fatal(err)
	}
	var b strings.Builder
	for _, c := range s.Buffer {
		b.WriteString(c.Grapheme)
	}
	t.Logf("size=%v cells=%q cursor=%+v", s.Size, b.String(), *s.Cursor)
	if b.String() != "HEAD------" {
		t.Fatalf("cells %q, want %q: graphemes 65536.. lie outside the 10x1 surface and must not be painted", b.String(), "HEAD------")
	}
}
