package demo

import (
	"testing"
	"time"

	"git.sr.ht/~rockorager/vaxis"
)

func renderSafely(vx *vaxis.Vaxis) (p interface{}) {
	defer func() { p = recover() }()
	vx.Render()
	return nil
}

func TestAbsurdSizeReport(t *testing.T) {
	for _, report := range []string{
		"\x1b[48;99999999999999999999;80;0;0t", // rows saturate
		"\x1b[48;0;0;0;0t",
	} {
		cleanEnv()
		f := newFake()
		// a terminal with in-band resize (mode 2048) reports its size when
		// the mode is set
		f.beforeDA1 = []byte("\x1b[48;24;80;480;800t")
		vx, err := vaxis.New(vaxis.Options{WithConsole: f, NoSignals: true})
		if err != nil {
			t.Fatal(err)
		}
		f.inject([]byte(report + "~"))
		_, ok := collect(vx, '~', time.Second)
		if !ok {
			t.Errorf("%q: sentinel lost", report)
		}
		// the application answers the Redraw event by drawing
		if p := renderSafely(vx); p != nil {
			t.Errorf("size report %q: Render panics: %v", report, p)
		}
		win := vx.Window()
		win.Fill(vaxis.Cell{Character: vaxis.Character{Grapheme: "x", Width: 1}})
		if p := renderSafely(vx); p != nil {
			t.Errorf("size report %q: second Render panics: %v", report, p)
		}
		f.inject([]byte("~"))
		if _, ok := collect(vx, '~', time.Second); !ok {
			t.Errorf("%q: sentinel lost after render", report)
		}
		vx.Close()
	}
}
