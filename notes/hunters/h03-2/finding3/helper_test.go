package demo

import (
	"bytes"
	"io"
	"os"
	"sync"
	"time"

	"git.sr.ht/~rockorager/vaxis"
	"github.com/containerd/console"
)

// fakeConsole is an in-memory terminal: what Vaxis writes is scanned for
// the two queries that need a reply, what the test injects is read by Vaxis.
type fakeConsole struct {
	mu      sync.Mutex
	cond    *sync.Cond
	in      []byte
	closed  bool
	out     bytes.Buffer
	// beforeDA1 is injected right before the reply to the first DA1 query
	beforeDA1 []byte
	// holdDA1: when non-nil, the DA1 reply is only sent once it is closed
	holdDA1 chan struct{}
	autoDA1 bool
}

func newFake() *fakeConsole {
	f := &fakeConsole{autoDA1: true}
	f.cond = sync.NewCond(&f.mu)
	return f
}

func (f *fakeConsole) inject(b []byte) {
	f.mu.Lock()
	f.in = append(f.in, b...)
	f.cond.Broadcast()
	f.mu.Unlock()
}

func (f *fakeConsole) Read(p []byte) (int, error) {
	f.mu.Lock()
	defer f.mu.Unlock()
	for len(f.in) == 0 && !f.closed {
		f.cond.Wait()
	}
	if len(f.in) == 0 {
		return 0, io.EOF
	}
	n := copy(p, f.in)
	f.in = f.in[n:]
	return n, nil
}

func (f *fakeConsole) Write(p []byte) (int, error) {
	f.mu.Lock()
	f.out.Write(p)
	var reply []byte
	if bytes.Contains(p, []byte("\x1b[6n")) {
		reply = append(reply, "\x1b[1;1R"...)
	}
	da1 := bytes.Contains(p, []byte("\x1b[c"))
	if da1 && f.autoDA1 {
		reply = append(reply, f.beforeDA1...)
		f.beforeDA1 = nil
		reply = append(reply, "\x1b[?62;22c"...)
	}
	f.in = append(f.in, reply...)
	f.cond.Broadcast()
	f.mu.Unlock()
	return len(p), nil
}

func (f *fakeConsole) Close() error {
	f.mu.Lock()
	f.closed = true
	f.cond.Broadcast()
	f.mu.Unlock()
	return nil
}
func (f *fakeConsole) Fd() uintptr                      { return ^uintptr(0) }
func (f *fakeConsole) Name() string                     { return "fake" }
func (f *fakeConsole) Resize(console.WinSize) error     { return nil }
func (f *fakeConsole) ResizeFrom(console.Console) error { return nil }
func (f *fakeConsole) SetRaw() error                    { return nil }
func (f *fakeConsole) DisableEcho() error               { return nil }
func (f *fakeConsole) Reset() error                     { return nil }
func (f *fakeConsole) Size() (console.WinSize, error) {
	return console.WinSize{Height: 24, Width: 80}, nil
}

func cleanEnv() {
	os.Unsetenv("COLORTERM")
	for _, k := range []string{"VAXIS_LOG_LEVEL", "VAXIS_GRAPHICS", "VAXIS_FORCE_LEGACY_SGR", "VAXIS_FORCE_WCWIDTH", "VAXIS_FORCE_UNICODE", "VAXIS_FORCE_XTWINOPS", "VAXIS_DISABLE_XTWINOPS"} {
		os.Unsetenv(k)
	}
}

// collect reads events until the sentinel key (Keycode 'z' with Ctrl, sent as
// 0x1A? no: we use the text "~" key) or the timeout
func collect(vx *vaxis.Vaxis, sentinel rune, d time.Duration) (evs []vaxis.Event, gotSentinel bool) {
	to := time.After(d)
	for {
		select {
		case ev := <-vx.Events():
			if k, ok := ev.(vaxis.Key); ok && k.Keycode == sentinel {
				return evs, true
			}
			evs = append(evs, ev)
		case <-to:
			return evs, false
		}
	}
}

