package demo

import (
	"testing"
	"time"

	"git.sr.ht/~rockorager/vaxis"
)

func TestTypeaheadDuringStartup(t *testing.T) {
	cleanEnv()
	f := newFake()
	// the user types "hi" while the start-up queries are outstanding: the
	// bytes reach the terminal's output before its DA1 reply
	f.beforeDA1 = []byte("hi")
	vx, err := vaxis.New(vaxis.Options{WithConsole: f, NoSignals: true})
	if err != nil {
		t.Fatal(err)
	}
	defer vx.Close()
	f.inject([]byte("~"))
	evs, ok := collect(vx, '~', 2*time.Second)
	if !ok {
		t.Fatalf("sentinel not delivered")
	}
	var keys string
	for _, ev := range evs {
		if k, ok := ev.(vaxis.Key); ok {
			keys += k.Text
		}
	}
	t.Logf("events before sentinel: %#v", evs)
	if keys != "hi" {
		t.Fatalf("typed \"hi\" during start-up, application received keys %q", keys)
	}
}

