package demo

import (
	"testing"
	"time"

	"git.sr.ht/~rockorager/vaxis"
)

func TestAltShiftPWedgesInput(t *testing.T) {
	cleanEnv()
	f := newFake()
	vx, err := vaxis.New(vaxis.Options{WithConsole: f, NoSignals: true})
	if err != nil {
		t.Fatal(err)
	}
	defer vx.Close()
	for _, intro := range []string{"P", "]", "X", "^", "_", "O", "["} {
		// legacy encoding of Alt+Shift+P etc.: ESC followed by the character
		f.inject([]byte("\x1b" + intro))
		time.Sleep(100 * time.Millisecond)
		// the user goes on typing, each key a read of its own
		for _, c := range "abc" {
			f.inject([]byte(string(c)))
			time.Sleep(30 * time.Millisecond)
		}
		f.inject([]byte("~"))
		evs, ok := collect(vx, '~', time.Second)
		var keys []string
		for _, ev := range evs {
			if k, ok := ev.(vaxis.Key); ok {
				keys = append(keys, k.String())
			}
		}
		if !ok || len(keys) != 4 {
			t.Errorf("Alt+%q then a b c then ~: sentinel delivered=%v, keys delivered=%q", intro, ok, keys)
		}
		// recover for the next round: CAN ends any string
		f.inject([]byte("\x18"))
		collect(vx, 'Q', 100*time.Millisecond)
	}
}
