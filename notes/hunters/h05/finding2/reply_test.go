package demo

import (
	"os/exec"
	"runtime"
	"strings"
	"testing"
	"time"

	"git.sr.ht/~rockorager/vaxis/widgets/term"
)

// The child puts its terminal in raw mode (as every full-screen program
// does), writes N device-attribute queries without reading the replies, then
// writes a marker. The byte stream is legal and finite.
func runChild(t *testing.T, n string) (sawMarker bool, lockFree bool) {
	vt := term.New()
	script := `stty raw -echo; i=0; while [ $i -lt ` + n + ` ]; do printf '\033[c'; i=$((i+1)); done; printf 'MARKER'; sleep 600`
	cmd := exec.Command("sh", "-c", script)
	if err := vt.StartWithSize(cmd, 80, 24); err != nil {
		t.Skipf("no pty: %v", err)
	}
	defer cmd.Process.Kill() // vt.Close would need the emulator's lock

	deadline := time.Now().Add(20 * time.Second)
	for time.Now().Before(deadline) {
		got := make(chan string, 1)
		go func() { got <- vt.String() }() // takes the emulator's lock, as Draw does
		select {
		case s := <-got:
			if strings.Contains(s, "MARKER") {
				return true, true
			}
		case <-time.After(8 * time.Second):
			return false, false
		}
		time.Sleep(100 * time.Millisecond)
	}
	return false, true
}

func TestFewQueriesAreFine(t *testing.T) {
	saw, free := runChild(t, "100")
	if !saw || !free {
		t.Fatalf("control run failed: marker=%v lockFree=%v", saw, free)
	}
}

func TestManyQueriesBlockTheEmulator(t *testing.T) {
	saw, free := runChild(t, "20000")
	if !free {
		buf := make([]byte, 1<<20)
		buf = buf[:runtime.Stack(buf, true)]
		for _, g := range strings.Split(string(buf), "\n\n") {
			if strings.Contains(g, "term.(*Model).csi") {
				lines := strings.Split(g, "\n")
				if len(lines) > 21 {
					lines = lines[:21]
				}
				t.Logf("PTY goroutine:\n%s", strings.Join(lines, "\n"))
			}
		}
		t.Fatalf("emulator blocked while processing child output: String() (and so Draw) could not take the lock for 8s; marker seen=%v", saw)
	}
	if !saw {
		t.Fatalf("child output after the queries was never processed")
	}
}
