//go:build verif

package demo

import (
	"fmt"
	"os"
	"strings"
	"testing"
	"time"

	"git.sr.ht/~rockorager/vaxis/ansi"
	"git.sr.ht/~rockorager/vaxis/widgets/term"
)

// feed parses the child's byte stream with the library's own parser and
// applies every sequence through the PTY goroutine's update path.
func feed(vt *term.Model, stream string) {
	p := ansi.NewParser(strings.NewReader(stream))
	for seq := range p.Next() {
		if _, ok := seq.(ansi.EOF); ok {
			return
		}
		vt.VerifFeed(seq)
	}
}

func run(t *testing.T, name, stream string, limit time.Duration) {
	devnull, _ := os.OpenFile(os.DevNull, os.O_WRONLY, 0)
	vt := term.NewVerif(devnull, 80, 24)
	done := make(chan string, 1)
	go func() {
		defer func() {
			if r := recover(); r != nil {
				done <- fmt.Sprintf("PANIC: %v", r)
			}
		}()
		feed(vt, stream)
		done <- ""
	}()
	select {
	case msg := <-done:
		if msg != "" {
			t.Errorf("%s: child output %q: %s", name, stream, msg)
		}
	case <-time.After(limit):
		t.Errorf("%s: child output %q: emulator still busy (holding its lock) after %v", name, stream, limit)
	}
}

// A sixel string whose raster attributes announce a huge picture.
func TestSixelRasterPanics(t *testing.T) {
	run(t, "raster", "\x1bPq\"1;1;4611686018427387904;1\x1b\\", 10*time.Second)
}

// A sixel string with a huge repeat count.
func TestSixelRepeatHangs(t *testing.T) {
	run(t, "repeat", "\x1bPq!99999999999999~\x1b\\", 10*time.Second)
}
