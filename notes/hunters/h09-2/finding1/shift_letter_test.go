package demo

import "testing"

// Shift+a and Alt+Shift+a are expressible in both the legacy encoding ("A",
// ESC "A") and the kitty encoding. Vaxis asks for CSIuDisambiguate only by
// default, so kitty reports Alt+Shift+a as CSI 97;4u (no shifted-key field);
// with "report all keys" and no "alternate keys", Shift+a is CSI 97;2u.
// The same chord must match the same bindings under either encoding.
func TestShiftLetterSameBindingsUnderEitherEncoding(t *testing.T) {
	r := newRig(t)
	defer r.close()
	cases := []struct {
		chord, legacy, kitty string
		bindings            []string
	}{
		{"Shift+a", "A", "\x1b[97;2u", []string{"A", "Shift+a", "Shift+A", "a"}},
		{"Alt+Shift+a", "\x1bA", "\x1b[97;4u", []string{"Alt+A", "Alt+Shift+a", "Alt+Shift+A", "Alt+a"}},
		// the same kitty reports with the optional text / event fields
		{"Shift+a (press, explicit event type)", "A", "\x1b[97;2:1u", []string{"A"}},
		{"Alt+Shift+a (caps lock bit irrelevant)", "\x1bA", "\x1b[97;68u", []string{"Alt+A"}},
	}
	for _, c := range cases {
		lk := r.one(c.legacy)
		kk := r.one(c.kitty)
		if lk.String() != kk.String() {
			t.Errorf("%s: String() legacy %q, kitty %q", c.chord, lk.String(), kk.String())
		}
		for _, b := range c.bindings {
			l, k := lk.MatchString(b), kk.MatchString(b)
			if l != k {
				t.Errorf("%s: binding %q matches legacy %q: %v, but kitty %q: %v", c.chord, b, c.legacy, l, c.kitty, k)
			}
		}
	}
}
