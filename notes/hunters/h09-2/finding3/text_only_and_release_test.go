package demo

import (
	"testing"

	"git.sr.ht/~rockorager/vaxis"
)

// Kitty reports text that is not tied to a key (compose, IME) with key code 0
// and the text in the third field: CSI 0;;229u is the text "å", no modifiers.
// The legacy encoding of the same input is the character itself.
func TestTextOnlyReport(t *testing.T) {
	r := newRig(t)
	defer r.close()
	kk := r.one("\x1b[0;;229u")
	lk := r.one("å")
	if kk.Modifiers != 0 || kk.Text != "å" {
		t.Fatalf("unexpected decoding %#v", kk)
	}
	if s := kk.String(); s != lk.String() {
		t.Errorf("String() of the unmodified text report CSI 0;;229u is %q; the legacy encoding gives %q", s, lk.String())
	}
	if !kk.MatchString(kk.String()) {
		t.Errorf("the event does not match its own description %q", kk.String())
	}
}

// The description of a release leaves the modifiers out, so a released chord
// does not match the binding String() names for it.
func TestReleaseDescription(t *testing.T) {
	r := newRig(t)
	defer r.close()
	k := r.one("\x1b[99;5:3u") // Ctrl+c released
	if k.EventType != vaxis.EventRelease || k.Modifiers != vaxis.ModCtrl {
		t.Fatalf("unexpected decoding %#v", k)
	}
	if !k.MatchString(k.String()) {
		t.Errorf("Ctrl+c released: String() = %q, which the event itself does not match", k.String())
	}
}
