package demo

import (
	"bytes"
	"io"
	"os"
	"sync"
	"testing"
	"time"

	"git.sr.ht/~rockorager/vaxis"
	"github.com/containerd/console"
)

type fakeConsole struct {
	mu   sync.Mutex
	cond *sync.Cond
	in   bytes.Buffer
	done bool
	tail []byte
}

func newFake() *fakeConsole {
	f := &fakeConsole{}
	f.cond = sync.NewCond(&f.mu)
	return f
}

func (f *fakeConsole) inject(b []byte) {
	f.mu.Lock()
	f.in.Write(b)
	f.mu.Unlock()
	f.cond.Broadcast()
}

func (f *fakeConsole) Read(p []byte) (int, error) {
	f.mu.Lock()
	defer f.mu.Unlock()
	for f.in.Len() == 0 && !f.done {
		f.cond.Wait()
	}
	if f.in.Len() == 0 {
		return 0, io.EOF
	}
	return f.in.Read(p)
}

func (f *fakeConsole) Write(p []byte) (int, error) {
	f.mu.Lock()
	f.tail = append(f.tail, p...)
	var reply []byte
	for {
		i := bytes.Index(f.tail, []byte("\x1b[6n"))
		j := bytes.Index(f.tail, []byte("\x1b[c"))
		if i < 0 && j < 0 {
			break
		}
		if i >= 0 && (j < 0 || i < j) {
			reply = append(reply, "\x1b[1;1R"...)
			f.tail = f.tail[i+4:]
		} else {
			reply = append(reply, "\x1b[?62;22c"...)
			f.tail = f.tail[j+3:]
		}
	}
	if len(f.tail) > 8 {
		f.tail = f.tail[len(f.tail)-8:]
	}
	f.in.Write(reply)
	f.mu.Unlock()
	f.cond.Broadcast()
	return len(p), nil
}

func (f *fakeConsole) Close() error {
	f.mu.Lock()
	f.done = true
	f.mu.Unlock()
	f.cond.Broadcast()
	return nil
}
func (f *fakeConsole) Fd() uintptr                        { return ^uintptr(0) }
func (f *fakeConsole) Name() string                       { return "fake" }
func (f *fakeConsole) Resize(console.WinSize) error       { return nil }
func (f *fakeConsole) ResizeFrom(console.Console) error   { return nil }
func (f *fakeConsole) SetRaw() error                      { return nil }
func (f *fakeConsole) DisableEcho() error                 { return nil }
func (f *fakeConsole) Reset() error                       { return nil }
func (f *fakeConsole) Size() (console.WinSize, error) {
	return console.WinSize{Height: 24, Width: 80}, nil
}

type rig struct {
	t  *testing.T
	vx *vaxis.Vaxis
	f  *fakeConsole
}

func newRig(t *testing.T) *rig {
	os.Unsetenv("COLORTERM")
	for _, e := range []string{"VAXIS_FORCE_LEGACY_SGR", "VAXIS_FORCE_WCWIDTH", "VAXIS_FORCE_UNICODE", "VAXIS_FORCE_XTWINOPS", "VAXIS_LOG_LEVEL", "VAXIS_GRAPHICS"} {
		os.Unsetenv(e)
	}
	f := newFake()
	vx, err := vaxis.New(vaxis.Options{WithConsole: f})
	if err != nil {
		t.Fatal(err)
	}
	return &rig{t: t, vx: vx, f: f}
}

// keys injects the bytes followed by a sentinel (CSI 57363 u = Menu) and
// returns the key events that arrived before the sentinel.
func (r *rig) keys(b string) []vaxis.Key {
	r.f.inject([]byte(b + "\x1b[57363u"))
	var out []vaxis.Key
	to := time.After(3 * time.Second)
	for {
		select {
		case ev := <-r.vx.Events():
			if k, ok := ev.(vaxis.Key); ok {
				if k.Keycode == vaxis.KeyMenu {
					return out
				}
				out = append(out, k)
			}
		case <-to:
			r.t.Fatalf("timeout waiting for sentinel after %q", b)
		}
	}
}

func (r *rig) one(b string) vaxis.Key {
	ks := r.keys(b)
	if len(ks) != 1 {
		r.t.Fatalf("%q: got %d keys: %#v", b, len(ks), ks)
	}
	return ks[0]
}

func (r *rig) close() { r.vx.Close() }
