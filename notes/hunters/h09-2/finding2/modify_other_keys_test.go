package demo

import "testing"

// xterm's modifyOtherKeys format CSI 27 ; mods ; code ~ (which decodeKey
// handles on purpose) reports a shifted letter by its upper-case code:
// Ctrl+Shift+a is CSI 27;6;65~, Alt+Shift+a is CSI 27;4;65~. The same chords
// are ESC "A" (legacy) and CSI 97;6u / CSI 97:65;6u / CSI 97;4u (kitty).
func TestModifyOtherKeysShiftedLetter(t *testing.T) {
	r := newRig(t)
	defer r.close()
	cases := []struct {
		chord    string
		mok      string
		others   []string
		bindings []string
	}{
		{"Ctrl+Shift+a", "\x1b[27;6;65~", []string{"\x1b[97:65;6u", "\x1b[97;6u"}, []string{"Ctrl+Shift+a", "Ctrl+Shift+A"}},
		{"Alt+Shift+a", "\x1b[27;4;65~", []string{"\x1bA", "\x1b[97:65;4u"}, []string{"Alt+Shift+a", "Alt+A", "Alt+Shift+A"}},
	}
	for _, c := range cases {
		mk := r.one(c.mok)
		for _, o := range c.others {
			ok := r.one(o)
			if mk.String() != ok.String() {
				t.Errorf("%s: String() is %q for %q but %q for %q", c.chord, mk.String(), c.mok, ok.String(), o)
			}
			for _, b := range c.bindings {
				if m, n := mk.MatchString(b), ok.MatchString(b); m != n {
					t.Errorf("%s: binding %q matches %q: %v, but %q: %v", c.chord, b, c.mok, m, o, n)
				}
			}
		}
		// the chord the user pressed does not match its own binding
		if !mk.MatchString(c.chord) {
			t.Errorf("%s pressed (%q) does not match the binding %q", c.chord, c.mok, c.chord)
		}
	}
}
