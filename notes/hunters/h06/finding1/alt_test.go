package finding

import (
	"reflect"
	"testing"
)

// xterm has three alternate-screen switches: DECSET/DECRST 47, 1047 and 1049.
// A child that uses 47 or 1047 (terminfo smcup/rmcup of many xterm variants:
// "\E7\E[?47h" ... "\E[2J\E[?47l\E8") draws on the alternate buffer and the
// normal buffer must reappear untouched when it leaves.
func TestAltScreen47And1047(t *testing.T) {
	for _, mode := range []string{"47", "1047", "1049"} {
		vt := newVT(t, 4, 3)
		feed(vt, "AB\r\nCD")
		feed(vt, "\x1b[?"+mode+"h")   // to the alternate screen
		feed(vt, "\x1b[H\x1b[2JXYZ") // full-screen program paints
		st := vt.VerifSnapshot()
		if !st.Alt {
			t.Errorf("mode %s: CSI ? %s h did not switch to the alternate screen", mode, mode)
		}
		feed(vt, "\x1b[?"+mode+"l") // back to the normal screen
		got := text(vt)
		want := []string{"AB..", "CD..", "...."}
		if !reflect.DeepEqual(got, want) {
			t.Errorf("mode %s: normal screen after leaving the alternate screen = %q, want %q", mode, got, want)
		}
	}
}

// DECSET/DECRST 1048 is xterm's save/restore cursor (as DECSC/DECRC).
func TestSaveRestoreCursor1048(t *testing.T) {
	vt := newVT(t, 4, 3)
	feed(vt, "\x1b[2;3H\x1b[?1048h\x1b[H\x1b[?1048l")
	st := vt.VerifSnapshot()
	if st.Cursor.Row != 1 || st.Cursor.Col != 2 {
		t.Errorf("cursor after CSI ?1048h .. CSI ?1048l = (%d,%d), want (1,2)", st.Cursor.Row, st.Cursor.Col)
	}
}
