package finding

import (
	"os"
	"strings"
	"testing"

	"git.sr.ht/~rockorager/vaxis/ansi"
	"git.sr.ht/~rockorager/vaxis/widgets/term"
)

// newVT builds an emulator without a child process (verif hook).
func newVT(t *testing.T, cols, rows int) *term.Model {
	f, err := os.OpenFile(os.DevNull, os.O_WRONLY, 0)
	if err != nil {
		t.Fatal(err)
	}
	t.Cleanup(func() { f.Close() })
	return term.NewVerif(f, cols, rows)
}

// feed parses raw child output with the library's own parser and applies
// every sequence the way the PTY goroutine does.
func feed(vt *term.Model, s string) {
	p := ansi.NewParser(strings.NewReader(s))
	for seq := range p.Next() {
		if _, ok := seq.(ansi.EOF); ok {
			return
		}
		vt.VerifFeed(seq)
	}
}

// text renders the visible grid, one string per row, blanks as '.'.
func text(vt *term.Model) []string {
	st := vt.VerifSnapshot()
	var out []string
	for _, line := range st.Active {
		b := strings.Builder{}
		for _, c := range line {
			if c.Grapheme == "" || c.Grapheme == " " {
				b.WriteString(".")
				continue
			}
			b.WriteString(c.Grapheme)
		}
		out = append(out, b.String())
	}
	return out
}
