package finding

import (
	"testing"

	"git.sr.ht/~rockorager/vaxis"
)

// SGR 21 is "doubly underlined" in ECMA-48 and in xterm (and SGR 24 turns it
// off). The library can represent it (vaxis.UnderlineDouble, reached by
// SGR 4:2) but SGR 21 is a no-op.
func TestSGR21DoubleUnderline(t *testing.T) {
	vt := newVT(t, 4, 2)
	feed(vt, "\x1b[21mX\x1b[24mY")
	st := vt.VerifSnapshot()
	if got := st.Active[0][0].Style.UnderlineStyle; got != vaxis.UnderlineDouble {
		t.Errorf("cell (0,0) after CSI 21 m X: underline style = %d, want %d (double)", got, vaxis.UnderlineDouble)
	}
	if got := st.Active[0][1].Style.UnderlineStyle; got != vaxis.UnderlineOff {
		t.Errorf("cell (0,1) after CSI 24 m Y: underline style = %d, want off", got)
	}
	// the equivalent colon form works, which shows the pen can hold it
	vt = newVT(t, 4, 2)
	feed(vt, "\x1b[4:2mX")
	if got := vt.VerifSnapshot().Active[0][0].Style.UnderlineStyle; got != vaxis.UnderlineDouble {
		t.Fatalf("CSI 4:2 m: underline style = %d", got)
	}
}
