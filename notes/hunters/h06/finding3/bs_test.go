package finding

import (
	"reflect"
	"testing"
)

// BS (cub1 in the xterm terminfo entry: the one-column relative cursor move)
// at the first column does nothing on a VT or on xterm: reverse wraparound
// (DECSET 45) is off by default. The library moves the cursor to the last
// column of the line above.
func TestBackspaceAtFirstColumn(t *testing.T) {
	vt := newVT(t, 4, 3)
	feed(vt, "AB\r\n\bX")
	got := text(vt)
	want := []string{"AB..", "X...", "...."}
	if !reflect.DeepEqual(got, want) {
		t.Errorf("grid = %q, want %q", got, want)
	}
	st := vt.VerifSnapshot()
	if st.Cursor.Row != 1 || st.Cursor.Col != 1 {
		t.Errorf("cursor = (%d,%d), want (1,1)", st.Cursor.Row, st.Cursor.Col)
	}
}
