package finding2

import (
	"strings"
	"testing"

	"git.sr.ht/~rockorager/vaxis"
	"git.sr.ht/~rockorager/vaxis/vxfw"
	"git.sr.ht/~rockorager/vaxis/vxfw/richtext"
	"git.sr.ht/~rockorager/vaxis/vxfw/text"
)

func ctx(w, h uint16) vxfw.DrawContext {
	return vxfw.DrawContext{Max: vxfw.Size{Width: w, Height: h}, Characters: vaxis.Characters}
}

func row0(s vxfw.Surface) string {
	var sb strings.Builder
	for c := 0; c < int(s.Size.Width) && int(s.Size.Height) > 0; c++ {
		sb.WriteString(s.Buffer[c].Grapheme)
	}
	return sb.String()
}

// "ab" followed by a very long run of spaces (a single line: spaces before a
// hard break or the end of the text stay on the line). The scanners emit the
// line "ab"+spaces, whose width ignoring trailing whitespace is 2. The widgets
// must draw "ab" on row 0.
func TestLongTrailingSpace(t *testing.T) {
	for _, n := range []int{65534, 65535} {
		in := "ab" + strings.Repeat(" ", n) + "\n"
		c := ctx(10, 10)
		sc := text.NewSoftwrapScanner(in, 10)
		var lines []string
		for sc.Scan(c) {
			lines = append(lines, strings.TrimRight(sc.Text(), " "))
		}
		if len(lines) != 1 || lines[0] != "ab" {
			t.Fatalf("unexpected scanner lines %q", lines)
		}
		s, _ := text.New(in).Draw(c)
		if got := strings.TrimRight(row0(s), " "); got != "ab" {
			t.Errorf("%d spaces: scanner emits [\"ab\"+spaces]; Text.Draw: surface %dx%d, row 0 = %q, want \"ab\"", n, s.Size.Width, s.Size.Height, got)
		}
		rs, _ := richtext.New([]vaxis.Segment{{Text: in}}).Draw(c)
		if got := strings.TrimRight(row0(rs), " "); got != "ab" {
			t.Errorf("%d spaces: RichText.Draw: surface %dx%d, row 0 = %q, want \"ab\"", n, rs.Size.Width, rs.Size.Height, got)
		}
	}
}
