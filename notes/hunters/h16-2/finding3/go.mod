module finding3

go 1.21

require git.sr.ht/~rockorager/vaxis v0.0.0

require (
	github.com/containerd/console v1.0.3 // indirect
	github.com/mattn/go-runewidth v0.0.14 // indirect
	github.com/mattn/go-sixel v0.0.5 // indirect
	github.com/rivo/uniseg v0.4.4 // indirect
	github.com/soniakeys/quant v1.0.0 // indirect
	golang.org/x/image v0.9.0 // indirect
	golang.org/x/sys v0.10.0 // indirect
)

replace git.sr.ht/~rockorager/vaxis => /tmp/hunt/h16/repo
