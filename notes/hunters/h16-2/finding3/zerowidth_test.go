package finding3

import (
	"strings"
	"testing"

	"git.sr.ht/~rockorager/vaxis"
	"git.sr.ht/~rockorager/vaxis/vxfw"
	"git.sr.ht/~rockorager/vaxis/vxfw/richtext"
	"git.sr.ht/~rockorager/vaxis/vxfw/text"
)

func ctx(w, h uint16) vxfw.DrawContext {
	return vxfw.DrawContext{Max: vxfw.Size{Width: w, Height: h}, Characters: vaxis.Characters}
}

func rows(s vxfw.Surface) []string {
	var out []string
	for r := 0; r < int(s.Size.Height); r++ {
		var sb strings.Builder
		for c := 0; c < int(s.Size.Width); c++ {
			sb.WriteString(s.Buffer[r*int(s.Size.Width)+c].Grapheme)
		}
		out = append(out, sb.String())
	}
	return out
}

// A combining mark that starts a line (start of the text, or after a hard
// break) is a grapheme of width 0. The scanners emit it; the widgets must draw
// it with its line.
func TestLeadingCombiningMark(t *testing.T) {
	for _, in := range []string{"\u0301a", "ab\n\u0301cd"} {
		c := ctx(10, 10)
		sc := text.NewSoftwrapScanner(in, 10)
		var lines []string
		for sc.Scan(c) {
			lines = append(lines, sc.Text())
		}
		s, _ := text.New(in).Draw(c)
		got := rows(s)
		if strings.Join(got, "|") != strings.Join(lines, "|") {
			t.Errorf("Text %q: scanner emits %q, Draw shows rows %q", in, lines, got)
		}
		rs, _ := richtext.New([]vaxis.Segment{{Text: in}}).Draw(c)
		got = rows(rs)
		if strings.Join(got, "|") != strings.Join(lines, "|") {
			t.Errorf("RichText %q: scanner emits %q, Draw shows rows %q", in, lines, got)
		}
	}
	// rich text: a mark that starts a styled segment
	c := ctx(10, 10)
	rs, _ := richtext.New([]vaxis.Segment{{Text: "ab"}, {Text: "\u0301c", Style: vaxis.Style{Attribute: vaxis.AttrBold}}}).Draw(c)
	if got := rows(rs); !strings.Contains(strings.Join(got, "|"), "\u0301") {
		t.Errorf("RichText segments \"ab\",\"\\u0301c\": Draw shows rows %q: the combining mark is gone", got)
	}
}
