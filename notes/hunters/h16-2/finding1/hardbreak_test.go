package finding1

import (
	"strings"
	"testing"

	"git.sr.ht/~rockorager/vaxis"
	"git.sr.ht/~rockorager/vaxis/vxfw"
	"git.sr.ht/~rockorager/vaxis/vxfw/text"
)

func ctx(w, h uint16) vxfw.DrawContext {
	return vxfw.DrawContext{Max: vxfw.Size{Width: w, Height: h}, Characters: vaxis.Characters}
}

// A hard line break always ends the current line: no emitted line may hold a
// line terminator in its middle.
func TestHardBreakBeforeHyphenDigit(t *testing.T) {
	for _, in := range []string{"a\n-1", "total:\n-5 degrees", "ab\r\n-1", "x\n\n-2"} {
		c := ctx(20, 10)
		sc := text.NewSoftwrapScanner(in, 20)
		var lines []string
		for sc.Scan(c) {
			lines = append(lines, sc.Text())
		}
		for _, l := range lines {
			if strings.Contains(l, "\n") {
				t.Errorf("input %q width 20: emitted lines %q: line %q runs across a hard line break", in, lines, l)
			}
		}
	}
}

// ... and the widget draws what stands on both sides of the break on one row.
func TestDrawHardBreakBeforeHyphenDigit(t *testing.T) {
	s, err := text.New("a\n-1").Draw(ctx(20, 10))
	if err != nil {
		t.Fatal(err)
	}
	var rows []string
	for r := 0; r < int(s.Size.Height); r++ {
		var sb strings.Builder
		for c := 0; c < int(s.Size.Width); c++ {
			sb.WriteString(s.Buffer[r*int(s.Size.Width)+c].Grapheme)
		}
		rows = append(rows, sb.String())
	}
	if len(rows) != 2 || rows[0] != "a" && !strings.HasPrefix(rows[0], "a") || strings.Contains(rows[0], "-") {
		t.Errorf("Text{\"a\\n-1\"} drawn as rows %q (size %dx%d), want 2 rows \"a\" and \"-1\"", rows, s.Size.Width, s.Size.Height)
	}
}
