package demo

import (
	"testing"

	"git.sr.ht/~rockorager/vaxis"
)

func cellOf(g string, w int) vaxis.Cell {
	return vaxis.Cell{Character: vaxis.Character{Grapheme: g, Width: w}}
}

// The terminal advertises the explicit-width (OSC 66) capability. The
// application sets a cell with explicit Width 1 whose grapheme the terminal
// would by itself draw two cells wide. render() uses OSC 66 only for Width > 1,
// prints the bare grapheme, the terminal advances two columns while Vaxis
// advances one, and every following cell of the run lands one column too far
// right (no CUP is emitted to resynchronise).
func TestExplicitWidthOneOnExplicitWidthTerminal(t *testing.T) {
	r := newRig(t, 10, 2, true)
	defer r.close()
	if !r.vx.CanExplicitWidth() {
		t.Fatal("explicit width capability was not detected")
	}
	win := r.vx.Window()
	win.Clear()
	win.SetCell(0, 0, cellOf("世", 1))
	win.SetCell(1, 0, cellOf("y", 1))
	win.SetCell(2, 0, cellOf("z", 1))
	r.vx.Render()
	out := r.sync()
	t.Logf("frame bytes: %q", out)
	t.Logf("terminal:\n%s", r.term.dump())
	if got := r.term.grid[0][0].w; got != 1 {
		t.Errorf("col 0 glyph is %d cells wide, application set width 1", got)
	}
	if got := r.term.grid[0][1].g; got != "y" {
		t.Errorf("col 1 shows %q, application set %q", got, "y")
	}
	if got := r.term.grid[0][2].g; got != "z" {
		t.Errorf("col 2 shows %q, application set %q", got, "z")
	}
}

// Same root cause without the capability: explicit Width 2 for a grapheme the
// terminal draws one cell wide. The width itself cannot be honoured, but the
// cells after it are displaced as well because render() trusts Cell.Width for
// the terminal's cursor position instead of repositioning.
func TestExplicitWidthTwoOnNarrowGlyph(t *testing.T) {
	r := newRig(t, 10, 2, false)
	defer r.close()
	win := r.vx.Window()
	win.Clear()
	win.SetCell(0, 0, cellOf("a", 2))
	win.SetCell(2, 0, cellOf("y", 1))
	win.SetCell(3, 0, cellOf("z", 1))
	r.vx.Render()
	out := r.sync()
	t.Logf("frame bytes: %q", out)
	t.Logf("terminal:\n%s", r.term.dump())
	if got := r.term.grid[0][2].g; got != "y" {
		t.Errorf("col 2 shows %q, application set %q", got, "y")
	}
	if got := r.term.grid[0][3].g; got != "z" {
		t.Errorf("col 3 shows %q, application set %q", got, "z")
	}
}
