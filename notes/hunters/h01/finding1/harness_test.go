package demo

// A fake in-memory console plus a small independent reference terminal
// (autowrap on by default, as in every real terminal: Vaxis never resets
// DECAWM).

import (
	"fmt"
	"os"
	"strconv"
	"strings"
	"sync"
	"testing"
	"time"

	"git.sr.ht/~rockorager/vaxis"
	"github.com/containerd/console"
	"github.com/rivo/uniseg"
)

// ---------------------------------------------------------------- console

type fakeConsole struct {
	mu      sync.Mutex
	out     []byte
	in      chan []byte
	pending []byte
	cols    int
	rows    int
	cprCol  int // column reported for ESC[6n (2 => explicit width capability)
	closed  chan struct{}
	once    sync.Once
}

func newFakeConsole(cols, rows int) *fakeConsole {
	return &fakeConsole{in: make(chan []byte, 64), cols: cols, rows: rows, cprCol: 1, closed: make(chan struct{})}
}

func (c *fakeConsole) Read(p []byte) (int, error) {
	if len(c.pending) == 0 {
		select {
		case b := <-c.in:
			c.pending = b
		case <-c.closed:
			return 0, fmt.Errorf("closed")
		}
	}
	n := copy(p, c.pending)
	c.pending = c.pending[n:]
	return n, nil
}

func (c *fakeConsole) Write(p []byte) (int, error) {
	c.mu.Lock()
	c.out = append(c.out, p...)
	c.mu.Unlock()
	s := string(p)
	if strings.Contains(s, "\x1b[6n") {
		c.in <- []byte(fmt.Sprintf("\x1b[1;%dR", c.cprCol))
	}
	if strings.Contains(s, "\x1b[c") {
		c.in <- []byte("\x1b[?62;22c")
	}
	return len(p), nil
}

func (c *fakeConsole) take() string {
	c.mu.Lock()
	defer c.mu.Unlock()
	s := string(c.out)
	c.out = nil
	return s
}

func (c *fakeConsole) Close() error                    { c.once.Do(func() { close(c.closed) }); return nil }
func (c *fakeConsole) Fd() uintptr                     { return ^uintptr(0) }
func (c *fakeConsole) Name() string                    { return "fake" }
func (c *fakeConsole) Resize(console.WinSize) error    { return nil }
func (c *fakeConsole) ResizeFrom(console.Console) error { return nil }
func (c *fakeConsole) SetRaw() error                   { return nil }
func (c *fakeConsole) DisableEcho() error              { return nil }
func (c *fakeConsole) Reset() error                    { return nil }
func (c *fakeConsole) Size() (console.WinSize, error) {
	return console.WinSize{Width: uint16(c.cols), Height: uint16(c.rows)}, nil
}

// ---------------------------------------------------------------- terminal

type tcell struct {
	g     string // grapheme ("" = blank, "<cont>" = right half of a wide glyph, "<junk>" = remains of a half-overwritten wide glyph)
	w     int
	sgr   string
	link  string // "params|url"
}

type refTerm struct {
	cols, rows  int
	grid        [][]tcell
	row, col    int
	wrapPending bool
	pen         map[string]string
	link        string
	cursorOn    bool
	cursorShape int
	syncDepth   int
	scrolled    int
}

func newRefTerm(cols, rows int) *refTerm {
	t := &refTerm{cols: cols, rows: rows, pen: map[string]string{}, cursorOn: true}
	t.clear()
	return t
}

func (t *refTerm) clear() {
	t.grid = make([][]tcell, t.rows)
	for r := range t.grid {
		t.grid[r] = make([]tcell, t.cols)
	}
}

func (t *refTerm) penString() string {
	keys := []string{"fg", "bg", "ul", "uls", "bold", "dim", "italic", "blink", "reverse", "hidden", "strike"}
	var sb strings.Builder
	for _, k := range keys {
		if v := t.pen[k]; v != "" {
			sb.WriteString(k + "=" + v + " ")
		}
	}
	return strings.TrimSpace(sb.String())
}

func (t *refTerm) lineFeed() {
	if t.row == t.rows-1 {
		t.grid = append(t.grid[1:], make([]tcell, t.cols))
		t.scrolled++
		return
	}
	t.row++
}

func (t *refTerm) put(g string, w int) {
	if w <= 0 {
		return
	}
	if t.wrapPending {
		t.wrapPending = false
		t.col = 0
		t.lineFeed()
	}
	if t.col+w > t.cols {
		// does not fit: autowrap moves it to the next line
		t.col = 0
		t.lineFeed()
	}
	// destroy wide glyphs we overlap
	for i := 0; i < w; i++ {
		c := t.col + i
		if c >= t.cols {
			break
		}
		old := t.grid[t.row][c]
		if old.g == "<cont>" && c > 0 && (i == 0) {
			t.grid[t.row][c-1] = tcell{g: "<junk>", w: 1}
		}
		if old.w > 1 {
			for j := 1; j < old.w && c+j < t.cols; j++ {
				if c+j >= t.col+w {
					t.grid[t.row][c+j] = tcell{g: "<junk>", w: 1}
				}
			}
		}
	}
	t.grid[t.row][t.col] = tcell{g: g, w: w, sgr: t.penString(), link: t.link}
	for i := 1; i < w && t.col+i < t.cols; i++ {
		t.grid[t.row][t.col+i] = tcell{g: "<cont>", sgr: t.penString(), link: t.link}
	}
	t.col += w
	if t.col >= t.cols {
		t.col = t.cols - 1
		t.wrapPending = true
	}
}

func (t *refTerm) sgr(params string) {
	if params == "" {
		params = "0"
	}
	ps := strings.Split(params, ";")
	for i := 0; i < len(ps); i++ {
		p := ps[i]
		sub := strings.Split(p, ":")
		n, _ := strconv.Atoi(sub[0])
		switch {
		case n == 0:
			t.pen = map[string]string{}
		case n == 1:
			t.pen["bold"] = "1"
		case n == 2:
			t.pen["dim"] = "1"
		case n == 3:
			t.pen["italic"] = "1"
		case n == 4:
			if len(sub) > 1 {
				if sub[1] == "0" {
					delete(t.pen, "uls")
				} else {
					t.pen["uls"] = sub[1]
				}
			} else {
				t.pen["uls"] = "1"
			}
		case n == 5:
			t.pen["blink"] = "1"
		case n == 7:
			t.pen["reverse"] = "1"
		case n == 8:
			t.pen["hidden"] = "1"
		case n == 9:
			t.pen["strike"] = "1"
		case n == 22:
			delete(t.pen, "bold")
			delete(t.pen, "dim")
		case n == 23:
			delete(t.pen, "italic")
		case n == 24:
			delete(t.pen, "uls")
		case n == 25:
			delete(t.pen, "blink")
		case n == 27:
			delete(t.pen, "reverse")
		case n == 28:
			delete(t.pen, "hidden")
		case n == 29:
			delete(t.pen, "strike")
		case n >= 30 && n <= 37:
			t.pen["fg"] = strconv.Itoa(n - 30)
		case n >= 90 && n <= 97:
			t.pen["fg"] = strconv.Itoa(n - 90 + 8)
		case n >= 40 && n <= 47:
			t.pen["bg"] = strconv.Itoa(n - 40)
		case n >= 100 && n <= 107:
			t.pen["bg"] = strconv.Itoa(n - 100 + 8)
		case n == 39:
			delete(t.pen, "fg")
		case n == 49:
			delete(t.pen, "bg")
		case n == 59:
			delete(t.pen, "ul")
		case n == 38 || n == 48 || n == 58:
			key := map[int]string{38: "fg", 48: "bg", 58: "ul"}[n]
			var args []string
			if len(sub) > 1 {
				args = sub[1:]
			} else {
				// semicolon form
				if i+1 < len(ps) && ps[i+1] == "5" {
					args = ps[i+1 : i+3]
					i += 2
				} else if i+1 < len(ps) && ps[i+1] == "2" {
					args = ps[i+1 : i+5]
					i += 4
				}
			}
			t.pen[key] = strings.Join(args, ",")
		}
	}
}

func (t *refTerm) feed(s string) {
	for len(s) > 0 {
		switch {
		case strings.HasPrefix(s, "\x1b["):
			j := 2
			for j < len(s) && (s[j] < 0x40 || s[j] > 0x7e) {
				j++
			}
			if j >= len(s) {
				return
			}
			t.csi(s[2:j], s[j])
			s = s[j+1:]
		case strings.HasPrefix(s, "\x1b]") || strings.HasPrefix(s, "\x1bP") || strings.HasPrefix(s, "\x1b_"):
			kind := s[1]
			end := strings.Index(s, "\x1b\\")
			skip := 2
			if b := strings.IndexByte(s, 0x07); kind == ']' && b >= 0 && (end < 0 || b < end) {
				end, skip = b, 1
			}
			if end < 0 {
				return
			}
			if kind == ']' {
				t.osc(s[2:end])
			}
			s = s[end+skip:]
		case s[0] == 0x1b:
			if len(s) < 2 {
				return
			}
			s = s[2:]
		case s[0] == '\r':
			t.col, t.wrapPending = 0, false
			s = s[1:]
		case s[0] == '\n':
			t.lineFeed()
			s = s[1:]
		case s[0] < 0x20 || s[0] == 0x7f:
			s = s[1:]
		default:
			// text up to the next control
			j := 0
			for j < len(s) && s[j] >= 0x20 && s[j] != 0x7f {
				j++
			}
			text := s[:j]
			s = s[j:]
			state := -1
			for len(text) > 0 {
				var g string
				var w int
				g, text, w, state = uniseg.FirstGraphemeClusterInString(text, state)
				t.put(g, w)
			}
		}
	}
}

func (t *refTerm) csi(params string, final byte) {
	switch final {
	case 'H':
		r, c := 1, 1
		ps := strings.Split(params, ";")
		if len(ps) > 0 && ps[0] != "" {
			r, _ = strconv.Atoi(ps[0])
		}
		if len(ps) > 1 && ps[1] != "" {
			c, _ = strconv.Atoi(ps[1])
		}
		if r < 1 {
			r = 1
		}
		if c < 1 {
			c = 1
		}
		if r > t.rows {
			r = t.rows
		}
		if c > t.cols {
			c = t.cols
		}
		t.row, t.col, t.wrapPending = r-1, c-1, false
	case 'm':
		if strings.HasPrefix(params, ">") || strings.HasPrefix(params, "?") {
			return
		}
		t.sgr(params)
	case 'J':
		t.clear()
	case 'q':
		if strings.HasSuffix(params, " ") {
			t.cursorShape, _ = strconv.Atoi(strings.TrimSpace(params))
		}
	case 'h', 'l':
		on := final == 'h'
		switch params {
		case "?25":
			t.cursorOn = on
		case "?2026":
			if on {
				t.syncDepth++
			} else {
				t.syncDepth--
			}
		case "?1049":
			t.clear()
			t.row, t.col = 0, 0
		}
	}
}

func (t *refTerm) osc(body string) {
	switch {
	case strings.HasPrefix(body, "8;"):
		rest := body[2:]
		k := strings.IndexByte(rest, ';')
		if k < 0 {
			return
		}
		params, url := rest[:k], rest[k+1:]
		if url == "" {
			t.link = ""
		} else {
			t.link = params + "|" + url
		}
	case strings.HasPrefix(body, "66;"):
		rest := body[3:]
		k := strings.IndexByte(rest, ';')
		if k < 0 {
			return
		}
		w := 0
		for _, kv := range strings.Split(rest[:k], ":") {
			if strings.HasPrefix(kv, "w=") {
				w, _ = strconv.Atoi(kv[2:])
			}
		}
		text := rest[k+1:]
		if w == 0 {
			w = uniseg.StringWidth(text)
		}
		t.put(text, w)
	}
}

func (t *refTerm) rowString(r int) string {
	var sb strings.Builder
	for _, c := range t.grid[r] {
		switch c.g {
		case "":
			sb.WriteString("·")
		case "<cont>":
		case "<junk>":
			sb.WriteString("?")
		default:
			sb.WriteString(c.g)
		}
	}
	return sb.String()
}

func (t *refTerm) dump() string {
	var sb strings.Builder
	for r := range t.grid {
		sb.WriteString(fmt.Sprintf("  row %d: %s\n", r, t.rowString(r)))
	}
	return sb.String()
}

// ---------------------------------------------------------------- setup

type rig struct {
	vx   *vaxis.Vaxis
	con  *fakeConsole
	term *refTerm
}

func newRig(t *testing.T, cols, rows int, explicitWidth bool) *rig {
	t.Helper()
	os.Unsetenv("COLORTERM")
	for _, e := range os.Environ() {
		if strings.HasPrefix(e, "VAXIS_") {
			os.Unsetenv(strings.SplitN(e, "=", 2)[0])
		}
	}
	con := newFakeConsole(cols, rows)
	if explicitWidth {
		con.cprCol = 2
	}
	vx, err := vaxis.New(vaxis.Options{WithConsole: con, NoSignals: true, DisableMouse: true})
	if err != nil {
		t.Fatal(err)
	}
	r := &rig{vx: vx, con: con, term: newRefTerm(cols, rows)}
	r.sync()
	return r
}

// sync feeds everything written so far to the reference terminal
func (r *rig) sync() string {
	time.Sleep(5 * time.Millisecond)
	s := r.con.take()
	r.term.feed(s)
	return s
}

func (r *rig) close() {
	done := make(chan struct{})
	go func() { r.vx.Close(); close(done) }()
	select {
	case <-done:
	case <-time.After(2 * time.Second):
	}
}
