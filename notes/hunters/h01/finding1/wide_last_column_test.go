package demo

import (
	"testing"

	"git.sr.ht/~rockorager/vaxis"
)

// An auto-measured (Width: 0) wide grapheme set in the last column. Vaxis
// stores it (screen.setCell only rejects an explicit Width > 1 there) and
// render() prints it at the right margin. Vaxis never turns autowrap off, so
// the terminal wraps the glyph onto the next row, destroying two cells Vaxis
// believes are intact; in the bottom row the whole screen scrolls.
func TestAutoWidthWideGlyphInLastColumn(t *testing.T) {
	r := newRig(t, 10, 3, false)
	defer r.close()
	win := r.vx.Window()
	win.Clear()
	win.Println(1, vaxis.Segment{Text: "abcdefghij"})
	r.vx.Render()
	r.sync()
	t.Logf("terminal after frame 1:\n%s", r.term.dump())

	win.SetCell(9, 0, vaxis.Cell{Character: vaxis.Character{Grapheme: "世"}}) // Width 0: measured by Vaxis
	r.vx.Render()
	out := r.sync()
	t.Logf("frame 2 bytes: %q", out)
	t.Logf("terminal after frame 2:\n%s", r.term.dump())
	for col, want := range []string{"a", "b"} {
		if got := r.term.grid[1][col].g; got != want {
			t.Errorf("row 1 col %d shows %q, the application last set %q there", col, got, want)
		}
	}
}

func TestAutoWidthWideGlyphInLastCellScrolls(t *testing.T) {
	r := newRig(t, 10, 3, false)
	defer r.close()
	win := r.vx.Window()
	win.Clear()
	win.Println(0, vaxis.Segment{Text: "top line"})
	win.Println(1, vaxis.Segment{Text: "middle"})
	r.vx.Render()
	r.sync()

	win.SetCell(9, 2, vaxis.Cell{Character: vaxis.Character{Grapheme: "世"}})
	r.vx.Refresh() // a full repaint: must be right whatever was shown before
	out := r.sync()
	t.Logf("refresh bytes: %q", out)
	t.Logf("terminal after Refresh:\n%s", r.term.dump())
	if r.term.scrolled != 0 {
		t.Errorf("the terminal scrolled %d line(s) during the frame", r.term.scrolled)
	}
	if got := r.term.rowString(0); got != "top line  " {
		t.Errorf("row 0 shows %q, the application set %q", got, "top line  ")
	}
}
