package demo

import (
	"testing"

	"git.sr.ht/~rockorager/vaxis"
)

// Two adjacent cells carry the same URL but different OSC 8 params (id=one /
// id=two: two distinct links by the OSC 8 spec). render() compares only
// Style.Hyperlink with the pen, so the second cell is printed inside the
// first cell's link and the terminal records id=one for it.
func TestHyperlinkParamsChangeWithSameURL(t *testing.T) {
	r := newRig(t, 10, 2, false)
	defer r.close()
	win := r.vx.Window()
	win.Clear()
	a := vaxis.Cell{Character: vaxis.Character{Grapheme: "a", Width: 1}}
	a.Hyperlink, a.HyperlinkParams = "https://example.com", "id=one"
	b := vaxis.Cell{Character: vaxis.Character{Grapheme: "b", Width: 1}}
	b.Hyperlink, b.HyperlinkParams = "https://example.com", "id=two"
	win.SetCell(0, 0, a)
	win.SetCell(1, 0, b)
	r.vx.Render()
	out := r.sync()
	t.Logf("frame bytes: %q", out)
	if got, want := r.term.grid[0][0].link, "id=one|https://example.com"; got != want {
		t.Errorf("col 0 hyperlink (params|url) = %q, application set %q", got, want)
	}
	if got, want := r.term.grid[0][1].link, "id=two|https://example.com"; got != want {
		t.Errorf("col 1 hyperlink (params|url) = %q, application set %q", got, want)
	}

	// The same happens across frames: only the params of an already shown
	// link change. The cell differs from screenLast, is re-emitted, and is
	// again correct only by luck of what precedes it in the run.
	a.HyperlinkParams = "id=two"
	win.SetCell(0, 0, a)
	win.SetCell(1, 0, a2(b, "id=three"))
	r.vx.Render()
	out = r.sync()
	t.Logf("frame 2 bytes: %q", out)
	if got, want := r.term.grid[0][1].link, "id=three|https://example.com"; got != want {
		t.Errorf("frame 2: col 1 hyperlink (params|url) = %q, application set %q", got, want)
	}
}

func a2(c vaxis.Cell, params string) vaxis.Cell {
	c.HyperlinkParams = params
	return c
}
