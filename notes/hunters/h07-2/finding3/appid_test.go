package demo

import (
	"strings"
	"testing"

	"git.sr.ht/~rockorager/vaxis"
)

// The terminal answers the start-up query OSC 176 ; ? with its current
// application id. The reply establishes the capability whatever the id is;
// an id is free text and may hold a semicolon
func TestAppIDReplyWithSemicolon(t *testing.T) {
	for _, id := range []string{"foot", "", "org.example;profile=work"} {
		cleanEnv()
		f := newFake()
		f.extra = "\x1b]176;" + id + "\x1b\\" // sent ahead of the DA1 reply
		vx, err := vaxis.New(vaxis.Options{WithConsole: f, NoSignals: true, DisableMouse: true})
		if err != nil {
			t.Fatal(err)
		}
		can := vx.CanSetAppID()
		vx.SetAppID("mine")
		f.resetOutput()
		vx.Close()
		restored := strings.Contains(f.output(), "\x1b]176;"+id+"\x1b\\")
		t.Logf("reply OSC 176;%q: CanSetAppID=%v, id restored by Close=%v", id, can, restored)
		if !can {
			t.Errorf("the terminal replied to the OSC 176 query (id %q) but CanSetAppID() is false", id)
		}
		if !restored {
			t.Errorf("Close did not restore the application id %q the terminal reported", id)
		}
	}
}
