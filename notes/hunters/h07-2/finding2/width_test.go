package demo

import (
	"strings"
	"testing"
	"unicode/utf8"

	"git.sr.ht/~rockorager/vaxis"
	"github.com/mattn/go-runewidth"
)

// replay replays what Vaxis wrote on a terminal that supports explicit-width
// text (OSC 66 ; w=N) and Unicode-core mode 2027. While mode 2027 is not set
// such a terminal advances bare text per code point (wcwidth, variation
// selectors 0): the very method Vaxis itself uses for a terminal whose mode
// 2027 it cannot set. It returns the 0-based column at which marker is printed
// in row 0, and whether mode 2027 was ever set
func replay(out string, marker rune) (markerCol int, core bool) {
	markerCol = -1
	row, col := 0, 0
	for i := 0; i < len(out); {
		c := out[i]
		switch {
		case c == 0x1b && i+1 < len(out) && out[i+1] == '[':
			j := i + 2
			for j < len(out) && (out[j] < 0x40 || out[j] > 0x7e) {
				j++
			}
			body := out[i+2 : j]
			switch out[j] {
			case 'H':
				r, cc := 1, 1
				if ps := strings.Split(body, ";"); len(ps) == 2 {
					r, cc = atoi(ps[0]), atoi(ps[1])
				}
				row, col = r-1, cc-1
			case 'h':
				if body == "?2027" {
					core = true
				}
			case 'l':
				if body == "?2027" {
					core = false
				}
			}
			i = j + 1
		case c == 0x1b && i+1 < len(out) && out[i+1] == ']':
			j := strings.Index(out[i:], "\x1b\\")
			osc := out[i+2 : i+j]
			if strings.HasPrefix(osc, "66;w=") {
				col += atoi(osc[5:6])
			}
			i += j + 2
		case c == 0x1b:
			i += 2
		case c < 0x20:
			i++
		default:
			r, n := utf8.DecodeRuneInString(out[i:])
			if r == marker && row == 0 && markerCol < 0 {
				markerCol = col
			}
			if !(r >= 0xFE00 && r <= 0xFE0F) {
				col += runewidth.RuneWidth(r)
			}
			i += n
		}
	}
	return markerCol, core
}

func atoi(s string) int {
	n := 0
	for _, c := range s {
		n = n*10 + int(c-'0')
	}
	return n
}

const watchAsText = "⌚︎" // WATCH + VS15: 1 column by the Unicode method, 2 by wcwidth

func TestWidthOneClusterOnExplicitWidthTerminal(t *testing.T) {
	for _, cfg := range []struct{ name, extra string }{
		{"explicit width only", ""},
		{"explicit width and Unicode core", "\x1b[?2027;2$y"},
	} {
		t.Run(cfg.name, func(t *testing.T) {
			cleanEnv()
			f := newFake()
			f.cpr = "\x1b[1;2R" // the OSC 66 probe moved the cursor: explicit width
			f.extra = cfg.extra
			vx, err := vaxis.New(vaxis.Options{WithConsole: f, NoSignals: true, DisableMouse: true})
			if err != nil {
				t.Fatal(err)
			}
			defer vx.Close()
			t.Logf("CanExplicitWidth=%v CanUnicodeCore=%v RenderedWidth(watch+VS15)=%d",
				vx.CanExplicitWidth(), vx.CanUnicodeCore(), vx.RenderedWidth(watchAsText))
			win := vx.Window()
			win.Clear()
			modelCol, _ := win.Print(vaxis.Segment{Text: watchAsText})
			win.Print(vaxis.Segment{Text: watchAsText + "|"})
			vx.Render()
			out := strings.ReplaceAll(f.output(), "\x00", "")
			termCol, core := replay(out, '|')
			t.Logf("mode 2027 set by Vaxis: %v; bare cluster in output: %v", core, strings.Contains(out, watchAsText+"|"))
			if termCol != modelCol {
				t.Errorf("Vaxis measured the cluster %d wide (Unicode method) and put '|' in column %d, "+
					"but it neither set mode 2027 nor wrote the cluster as explicit-width text: "+
					"the terminal, still measuring per code point, prints '|' in column %d",
					modelCol, modelCol, termCol)
			}
		})
	}
}
