package demo

import (
	"bytes"
	"os"
	"sync"

	"github.com/containerd/console"
)

// fakeConsole is an in-memory terminal that advertises nothing: it answers
// the cursor position request with 1;1 and DA1 with ?62;22c and ignores all
// other queries (no DECRPM 2027, no explicit width, no XTVERSION)
type fakeConsole struct {
	mu   sync.Mutex
	cond *sync.Cond
	in   bytes.Buffer
	out  bytes.Buffer
	eof  bool
}

func newFake() *fakeConsole {
	f := &fakeConsole{}
	f.cond = sync.NewCond(&f.mu)
	return f
}

func (f *fakeConsole) Read(p []byte) (int, error) {
	f.mu.Lock()
	defer f.mu.Unlock()
	for f.in.Len() == 0 {
		f.cond.Wait()
	}
	return f.in.Read(p)
}

func (f *fakeConsole) Write(p []byte) (int, error) {
	f.mu.Lock()
	defer f.mu.Unlock()
	f.out.Write(p)
	// replies, in the order of the requests
	rest := p
	for len(rest) > 0 {
		i := bytes.IndexByte(rest, 0x1b)
		if i < 0 {
			break
		}
		rest = rest[i:]
		switch {
		case bytes.HasPrefix(rest, []byte("\x1b[6n")):
			f.in.WriteString("\x1b[1;1R")
		case bytes.HasPrefix(rest, []byte("\x1b[c")):
			f.in.WriteString("\x1b[?62;22c")
		}
		rest = rest[1:]
	}
	f.cond.Broadcast()
	return len(p), nil
}

func (f *fakeConsole) output() string {
	f.mu.Lock()
	defer f.mu.Unlock()
	return f.out.String()
}

func (f *fakeConsole) resetOutput() {
	f.mu.Lock()
	defer f.mu.Unlock()
	f.out.Reset()
}

func (f *fakeConsole) Close() error                    { return nil }
func (f *fakeConsole) Fd() uintptr                     { return ^uintptr(0) }
func (f *fakeConsole) Name() string                    { return "fake" }
func (f *fakeConsole) Resize(console.WinSize) error    { return nil }
func (f *fakeConsole) ResizeFrom(console.Console) error { return nil }
func (f *fakeConsole) SetRaw() error                   { return nil }
func (f *fakeConsole) DisableEcho() error              { return nil }
func (f *fakeConsole) Reset() error                    { return nil }
func (f *fakeConsole) Size() (console.WinSize, error) {
	return console.WinSize{Height: 5, Width: 20}, nil
}

func cleanEnv() {
	for _, k := range []string{"COLORTERM", "VAXIS_FORCE_LEGACY_SGR", "VAXIS_FORCE_WCWIDTH",
		"VAXIS_FORCE_UNICODE", "VAXIS_FORCE_NOZWJ", "VAXIS_DISABLE_NOZWJ", "VAXIS_FORCE_XTWINOPS",
		"VAXIS_GRAPHICS", "VAXIS_LOG_LEVEL", "ASCIINEMA_REC"} {
		os.Unsetenv(k)
	}
}
