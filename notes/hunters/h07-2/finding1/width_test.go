package demo

import (
	"strings"
	"testing"
	"unicode/utf8"

	"git.sr.ht/~rockorager/vaxis"
	"git.sr.ht/~rockorager/vaxis/widgets/pager"
	"git.sr.ht/~rockorager/vaxis/widgets/textinput"
	"github.com/mattn/go-runewidth"
)

// legacyColumnOf replays the bytes Vaxis wrote on a terminal of the kind that
// was advertised (no Unicode core, no explicit width: every code point is
// advanced by its own wcwidth, variation selectors by 0, which is exactly the
// method vx.RenderedWidth selects for this terminal) and returns the 0-based
// column at which the first occurrence of marker is printed on the first row
func legacyColumnOf(out string, marker rune) int {
	row, col := 0, 0
	for i := 0; i < len(out); {
		c := out[i]
		switch {
		case c == 0x1b && i+1 < len(out) && out[i+1] == '[':
			j := i + 2
			for j < len(out) && (out[j] < 0x40 || out[j] > 0x7e) {
				j++
			}
			if j < len(out) && out[j] == 'H' {
				r, cc := 1, 1
				ps := strings.Split(out[i+2:j], ";")
				if len(ps) == 2 {
					r, cc = atoi(ps[0]), atoi(ps[1])
				}
				row, col = r-1, cc-1
			}
			i = j + 1
		case c == 0x1b && i+1 < len(out) && out[i+1] == ']':
			j := strings.Index(out[i:], "\x1b\\")
			if j < 0 {
				return -1
			}
			i += j + 2
		case c == 0x1b:
			i += 2
		case c < 0x20:
			i++
		default:
			r, n := utf8.DecodeRuneInString(out[i:])
			if r == marker && row == 0 {
				return col
			}
			if !(r >= 0xFE00 && r <= 0xFE0F) {
				col += runewidth.RuneWidth(r)
			}
			i += n
		}
	}
	return -1
}

func atoi(s string) int {
	n := 0
	for _, c := range s {
		n = n*10 + int(c-'0')
	}
	return n
}

func start(t *testing.T) (*vaxis.Vaxis, *fakeConsole) {
	cleanEnv()
	f := newFake()
	vx, err := vaxis.New(vaxis.Options{WithConsole: f, NoSignals: true, DisableMouse: true})
	if err != nil {
		t.Fatal(err)
	}
	if vx.CanUnicodeCore() || vx.CanExplicitWidth() {
		t.Fatal("the terminal advertised neither Unicode core nor explicit width")
	}
	return vx, f
}

const astronaut = "\U0001F469‍\U0001F680" // woman, ZWJ, rocket

func TestPagerAgreesWithWindowPrint(t *testing.T) {
	// Window.Print measures by vx's method; pager must put the '|' in the
	// same column, and so must the terminal
	vx, f := start(t)
	defer vx.Close()
	win := vx.Window()
	win.Clear()
	col, _ := win.Print(vaxis.Segment{Text: astronaut})
	f.resetOutput()
	vx.Render()
	t.Logf("Window.Print leaves the column at %d after the astronaut", col)

	p := &pager.Model{Segments: []vaxis.Segment{{Text: astronaut + "|"}}}
	win.Clear()
	p.Draw(win)
	f.resetOutput()
	vx.Refresh()
	out := f.output()
	got := legacyColumnOf(out, '|')
	// where does Vaxis believe the '|' is? It wrote it right after the
	// cluster without a cursor movement, believing the cluster 2 wide
	if !strings.Contains(out, astronaut+"|") {
		t.Logf("output: %q", strings.ReplaceAll(out, "\x00", ""))
	}
	if got != 2 {
		t.Errorf("pager: the screen model has '|' in column 2 (cluster measured 2 wide with the Unicode method), "+
			"the advertised (wcwidth) terminal shows it in column %d; Window.Print, using the matching method, puts it in column %d", got, col)
	}
}

func TestTextInputMeasuresWithTheTerminalsMethod(t *testing.T) {
	vx, f := start(t)
	defer vx.Close()
	ti := textinput.New()
	ti.SetContent(astronaut + "|")
	win := vx.Window()
	win.Clear()
	ti.Draw(win)
	f.resetOutput()
	vx.Refresh()
	got := legacyColumnOf(f.output(), '|')
	want := vx.RenderedWidth(astronaut)
	for _, ch := range ti.Characters() {
		if w := vx.RenderedWidth(ch.Grapheme); w != ch.Width {
			t.Errorf("textinput measured %q as %d wide, vx.RenderedWidth (the method matching the replies) says %d", ch.Grapheme, ch.Width, w)
		}
	}
	if got != 2 {
		t.Errorf("textinput: model column of '|' is 2, the terminal shows it in column %d (cluster is %d wide there)", got, want)
	}
}
