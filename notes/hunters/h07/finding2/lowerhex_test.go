package demo

import (
	"strings"
	"testing"

	"git.sr.ht/~rockorager/vaxis"
)

// The XTGETTCAP reply carries the capability name hex encoded. Hex digits are
// case-insensitive; "Smulx" is 53 6D 75 6C 78, so a terminal that writes its
// hex in lower case ("536d756c78") advertises the very same capability.
func TestSmulxReplyInLowerCaseHex(t *testing.T) {
	cleanEnv()
	for _, reply := range []string{
		"\x1bP1+r536D756C78=1B5B343A25703125646D\x1b\\",
		"\x1bP1+r536d756c78=1b5b343a25703125646d\x1b\\",
	} {
		f := newFake()
		f.replies["\x1bP+q536D756C78\x1b\\"] = reply
		vx, err := vaxis.New(vaxis.Options{WithConsole: f, NoSignals: true})
		if err != nil {
			t.Fatal(err)
		}
		vx.Window().SetCell(0, 0, vaxis.Cell{
			Character: vaxis.Character{Grapheme: "x", Width: 1},
			Style: vaxis.Style{
				UnderlineStyle: vaxis.UnderlineCurly,
				UnderlineColor: vaxis.IndexColor(1),
			},
		})
		mark := len(f.output())
		vx.Render()
		out := f.output()[mark:]
		vx.Close()
		curly := strings.Contains(out, "\x1b[4:3m")
		ulcol := strings.Contains(out, "\x1b[58:5:1m")
		t.Logf("reply %q: curly underline sent=%v underline colour sent=%v", reply, curly, ulcol)
		if !curly || !ulcol {
			t.Errorf("reply %q advertises Smulx, but the frame fell back to a plain underline: %q...", reply, out[:20])
		}
	}
}
