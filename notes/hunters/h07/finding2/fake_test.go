package demo

import (
	"bytes"
	"fmt"
	"os"
	"strings"
	"sync"

	"github.com/containerd/console"
)

// fakeTerm is an in-memory terminal. It tokenizes what is written to it and
// answers the start-up queries according to its configuration.
type fakeTerm struct {
	mu     sync.Mutex
	cond   *sync.Cond
	in     []byte // bytes the application can read
	closed bool
	out    bytes.Buffer // everything written
	pend   []byte
	col    int

	// configuration
	replies   map[string]string // exact sequence -> reply
	osc66     bool              // explicit width supported
	cols, rows int
}

func newFake() *fakeTerm {
	f := &fakeTerm{replies: map[string]string{}, cols: 80, rows: 24}
	f.cond = sync.NewCond(&f.mu)
	f.replies["\x1b[c"] = "\x1b[?62;22c"
	return f
}

func (f *fakeTerm) Read(p []byte) (int, error) {
	f.mu.Lock()
	defer f.mu.Unlock()
	for len(f.in) == 0 && !f.closed {
		f.cond.Wait()
	}
	if len(f.in) == 0 {
		return 0, os.ErrClosed
	}
	n := copy(p, f.in)
	f.in = f.in[n:]
	return n, nil
}

func (f *fakeTerm) feed(s string) {
	f.in = append(f.in, s...)
	f.cond.Broadcast()
}

func (f *fakeTerm) Write(p []byte) (int, error) {
	f.mu.Lock()
	defer f.mu.Unlock()
	f.out.Write(p)
	f.pend = append(f.pend, p...)
	for {
		tok, rest, ok := nextToken(f.pend)
		if !ok {
			break
		}
		f.pend = rest
		f.handle(tok)
	}
	return len(p), nil
}

func (f *fakeTerm) handle(tok string) {
	switch {
	case tok == "\x1b[H":
		f.col = 0
	case tok == "\x1b[6n":
		f.feed(fmt.Sprintf("\x1b[1;%dR", f.col+1))
	case strings.HasPrefix(tok, "\x1b]66;"):
		if f.osc66 {
			var w int
			fmt.Sscanf(tok, "\x1b]66;w=%d;", &w)
			f.col += w
		}
	default:
		if r, ok := f.replies[tok]; ok {
			f.feed(r)
		} else if !strings.HasPrefix(tok, "\x1b") {
			f.col += len(tok)
		}
	}
}

// nextToken splits off one escape sequence or one run of plain text
func nextToken(b []byte) (string, []byte, bool) {
	if len(b) == 0 {
		return "", b, false
	}
	if b[0] != 0x1b {
		i := bytes.IndexByte(b, 0x1b)
		if i < 0 {
			i = len(b)
		}
		return string(b[:i]), b[i:], true
	}
	if len(b) < 2 {
		return "", b, false
	}
	switch b[1] {
	case '[':
		for i := 2; i < len(b); i++ {
			if b[i] >= 0x40 && b[i] <= 0x7e {
				return string(b[:i+1]), b[i+1:], true
			}
		}
		return "", b, false
	case ']', 'P', '_':
		for i := 2; i < len(b); i++ {
			if b[i] == 0x07 && b[1] == ']' {
				return string(b[:i+1]), b[i+1:], true
			}
			if b[i] == 0x1b && i+1 < len(b) && b[i+1] == '\\' {
				return string(b[:i+2]), b[i+2:], true
			}
		}
		return "", b, false
	default:
		return string(b[:2]), b[2:], true
	}
}

func (f *fakeTerm) output() string {
	f.mu.Lock()
	defer f.mu.Unlock()
	return f.out.String()
}

func (f *fakeTerm) Close() error {
	f.mu.Lock()
	defer f.mu.Unlock()
	f.closed = true
	f.cond.Broadcast()
	return nil
}
func (f *fakeTerm) Fd() uintptr                       { return ^uintptr(0) }
func (f *fakeTerm) Name() string                      { return "fake" }
func (f *fakeTerm) Resize(console.WinSize) error      { return nil }
func (f *fakeTerm) ResizeFrom(console.Console) error  { return nil }
func (f *fakeTerm) SetRaw() error                     { return nil }
func (f *fakeTerm) DisableEcho() error                { return nil }
func (f *fakeTerm) Reset() error                      { return nil }
func (f *fakeTerm) Size() (console.WinSize, error) {
	return console.WinSize{Height: uint16(f.rows), Width: uint16(f.cols), 
	}, nil
}

func cleanEnv() {
	os.Unsetenv("COLORTERM")
	for _, e := range os.Environ() {
		if strings.HasPrefix(e, "VAXIS_") || strings.HasPrefix(e, "ASCIINEMA") {
			os.Unsetenv(strings.SplitN(e, "=", 2)[0])
		}
	}
}
