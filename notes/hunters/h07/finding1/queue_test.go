package demo

import (
	"testing"

	"git.sr.ht/~rockorager/vaxis"
)

// A terminal which advertises everything, including explicit-width text: it
// honours the OSC 66 probe, so its cursor position report after the probe is
// ESC [ 1 ; 2 R.
func fullTerm() *fakeTerm {
	f := newFake()
	f.osc66 = true
	f.replies["\x1b[?2026$p"] = "\x1b[?2026;2$y"
	f.replies["\x1b[?2027$p"] = "\x1b[?2027;2$y"
	f.replies["\x1b[?2031$p"] = "\x1b[?2031;2$y"
	f.replies["\x1b[>0q"] = "\x1bP>|fake 1.0\x1b\\"
	f.replies["\x1b[?u"] = "\x1b[?0u"
	f.replies["\x1b_Gi=1,a=q\x1b\\"] = "\x1b_Gi=1;OK\x1b\\"
	f.replies["\x1b[?2;1;0S"] = "\x1b[?2;0;800;600S"
	f.replies["\x1b[14t"] = "\x1b[4;600;800t"
	f.replies["\x1b[18t"] = "\x1b[8;24;80t"
	return f
}

func TestExplicitWidthLostWithSmallEventQueue(t *testing.T) {
	cleanEnv()
	for _, q := range []int{0 /* default 1024 */, 8, 4, 1} {
		f := fullTerm()
		vx, err := vaxis.New(vaxis.Options{WithConsole: f, EventQueueSize: q, NoSignals: true})
		if err != nil {
			t.Fatal(err)
		}
		// draw a wide cell: with explicit width it must go out as OSC 66
		vx.Window().SetCell(0, 0, vaxis.Cell{Character: vaxis.Character{Grapheme: "世", Width: 2}})
		vx.Render()
		got := vx.CanExplicitWidth()
		vx.Close()
		t.Logf("EventQueueSize=%d: CanExplicitWidth()=%v", q, got)
		if !got {
			t.Errorf("EventQueueSize=%d: the terminal answered the OSC 66 probe with CPR 1;2 (explicit width advertised) but CanExplicitWidth()=false", q)
		}
	}
}
