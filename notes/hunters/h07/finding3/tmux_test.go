package demo

import (
	"strings"
	"testing"

	"git.sr.ht/~rockorager/vaxis"
)

// The terminal answers XTVERSION with "tmux 3.4", does NOT answer the DECRQM
// for mode 2027 (so Unicode-core mode is not advertised) and nothing else.
func TestUnicodeCoreResetWithoutAdvertisement(t *testing.T) {
	cleanEnv()
	f := newFake()
	f.replies["\x1b[>0q"] = "\x1bP>|tmux 3.4\x1b\\"
	vx, err := vaxis.New(vaxis.Options{WithConsole: f, NoSignals: true})
	if err != nil {
		t.Fatal(err)
	}
	afterNew := f.output()
	can := vx.CanUnicodeCore()
	vx.Suspend()
	vx.Resume()
	vx.Close()
	out := f.output()
	t.Logf("CanUnicodeCore()=%v; New wrote ?2027h=%v; whole session wrote ?2027h=%v ?2027l=%v",
		can, strings.Contains(afterNew, "\x1b[?2027h"),
		strings.Contains(out, "\x1b[?2027h"), strings.Contains(out, "\x1b[?2027l"))
	if can {
		t.Errorf("CanUnicodeCore()=true although no DECRPM reply for mode 2027 was received")
	}
	if strings.Contains(out, "\x1b[?2027l") || strings.Contains(out, "\x1b[?2027h") {
		t.Errorf("mode 2027 was written (set=%v reset=%v) to a terminal that never advertised it; New itself did not set it (set in New=%v)",
			strings.Contains(out, "\x1b[?2027h"), strings.Contains(out, "\x1b[?2027l"), strings.Contains(afterNew, "\x1b[?2027h"))
	}
}
