package finding1

import (
	"bytes"
	"fmt"
	"io"
	"strings"
	"testing"
	"testing/iotest"

	"git.sr.ht/~rockorager/vaxis/ansi"
)

// run feeds the reader to the parser and renders every delivered sequence
func run(r io.Reader) string {
	p := ansi.NewParser(r)
	var out []string
	for seq := range p.Next() {
		switch s := seq.(type) {
		case ansi.Print:
			out = append(out, fmt.Sprintf("Print(%q)", s.Grapheme))
		case ansi.C0:
			out = append(out, fmt.Sprintf("C0(%02X)", rune(s)))
		case ansi.ESC:
			out = append(out, fmt.Sprintf("ESC(%q,%q)", string(s.Intermediate), s.Final))
		case ansi.CSI:
			out = append(out, fmt.Sprintf("CSI(%q,%v,%q)", string(s.Intermediate), s.Parameters, s.Final))
		case ansi.OSC:
			out = append(out, fmt.Sprintf("OSC(%q)", string(s.Payload)))
		case ansi.DCS:
			out = append(out, fmt.Sprintf("DCS(%q,%v,%q,%q)", string(s.Intermediate), s.Parameters, s.Final, string(s.Data)))
		case ansi.APC:
			out = append(out, fmt.Sprintf("APC(%q)", s.Data))
		case ansi.SS3:
			out = append(out, fmt.Sprintf("SS3(%q)", rune(s)))
		case ansi.EOF:
			out = append(out, "EOF")
		case error:
			// diagnostics are not sequences
		}
	}
	return strings.Join(out, " ")
}

func check(t *testing.T, in, want string) {
	t.Helper()
	for name, r := range map[string]io.Reader{
		"whole":  bytes.NewReader([]byte(in)),
		"1-byte": iotest.OneByteReader(bytes.NewReader([]byte(in))),
	} {
		if got := run(r); got != want {
			t.Errorf("input %q (%s reads)\n  delivered: %s\n  expected:  %s", in, name, got, want)
		}
	}
}

// An OSC string with an empty payload that is terminated by ST (ESC \): the
// ST that ends a string must be suppressed, as it is for a non-empty OSC and
// for an empty APC / DCS / SOS / PM string.
func TestEmptyOSCTerminatedByST(t *testing.T) {
	// controls: the same shape with other strings behaves
	check(t, "\x1b]a\x1b\\x", `OSC("a") Print("x") EOF`)
	check(t, "\x1b_\x1b\\x", `APC("") Print("x") EOF`)
	check(t, "\x1bPq\x1b\\x", `DCS("",[],'q',"") Print("x") EOF`)
	// the violation
	check(t, "\x1b]\x1b\\x", `OSC("") Print("x") EOF`)
}
