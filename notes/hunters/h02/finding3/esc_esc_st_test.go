package finding3

import (
	"bytes"
	"fmt"
	"io"
	"strings"
	"testing"
	"testing/iotest"

	"git.sr.ht/~rockorager/vaxis/ansi"
)

// run feeds the reader to the parser and renders every delivered sequence
func run(r io.Reader) string {
	p := ansi.NewParser(r)
	var out []string
	for seq := range p.Next() {
		switch s := seq.(type) {
		case ansi.Print:
			out = append(out, fmt.Sprintf("Print(%q)", s.Grapheme))
		case ansi.C0:
			out = append(out, fmt.Sprintf("C0(%02X)", rune(s)))
		case ansi.ESC:
			out = append(out, fmt.Sprintf("ESC(%q,%q)", string(s.Intermediate), s.Final))
		case ansi.CSI:
			out = append(out, fmt.Sprintf("CSI(%q,%v,%q)", string(s.Intermediate), s.Parameters, s.Final))
		case ansi.OSC:
			out = append(out, fmt.Sprintf("OSC(%q)", string(s.Payload)))
		case ansi.DCS:
			out = append(out, fmt.Sprintf("DCS(%q,%v,%q,%q)", string(s.Intermediate), s.Parameters, s.Final, string(s.Data)))
		case ansi.APC:
			out = append(out, fmt.Sprintf("APC(%q)", s.Data))
		case ansi.SS3:
			out = append(out, fmt.Sprintf("SS3(%q)", rune(s)))
		case ansi.EOF:
			out = append(out, "EOF")
		case error:
			// diagnostics are not sequences
		}
	}
	return strings.Join(out, " ")
}

func check(t *testing.T, in, want string) {
	t.Helper()
	for name, r := range map[string]io.Reader{
		"whole":  bytes.NewReader([]byte(in)),
		"1-byte": iotest.OneByteReader(bytes.NewReader([]byte(in))),
	} {
		if got := run(r); got != want {
			t.Errorf("input %q (%s reads)\n  delivered: %s\n  expected:  %s", in, name, got, want)
		}
	}
}

// A string is ended by ESC; that escape sequence is itself cancelled by a
// second ESC, which starts a new escape sequence ESC \. Only the character
// right after the ESC that ended the string may be taken for the string's
// ST; the second ESC \ is a complete escape sequence of its own (VT500:
// escape state, 5C -> esc_dispatch) and must be delivered, exactly as it is
// when any other character stands between the two.
func TestEscEscBackslashAfterString(t *testing.T) {
	// controls
	check(t, "\x1b]a\x1b\\x", `OSC("a") Print("x") EOF`)                       // the ST itself: suppressed
	check(t, "\x1b]a\x1b\n\\x", `OSC("a") C0(0A) ESC("",'\\') Print("x") EOF`) // a C0 in between: delivered
	check(t, "\x1b]a\x1bA\x1b\\x", `OSC("a") ESC("",'A') ESC("",'\\') Print("x") EOF`)
	check(t, "\x1b\x1b\\x", `ESC("",'\\') Print("x") EOF`) // ESC ESC \ without a string: delivered
	// the violation
	check(t, "\x1b]a\x1b\x1b\\x", `OSC("a") ESC("",'\\') Print("x") EOF`)
	check(t, "\x1bPq\x1b\x1b\\x", `DCS("",[],'q',"") ESC("",'\\') Print("x") EOF`)
	check(t, "\x1b_a\x1b\x1b\\x", `APC("a") ESC("",'\\') Print("x") EOF`)
	check(t, "\x1bXa\x1b\x1b\\x", `ESC("",'\\') Print("x") EOF`)
}
