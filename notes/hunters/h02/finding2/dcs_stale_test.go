package finding2

import (
	"bytes"
	"fmt"
	"io"
	"strings"
	"testing"
	"testing/iotest"

	"git.sr.ht/~rockorager/vaxis/ansi"
)

// run feeds the reader to the parser and renders every delivered sequence
func run(r io.Reader) string {
	p := ansi.NewParser(r)
	var out []string
	for seq := range p.Next() {
		switch s := seq.(type) {
		case ansi.Print:
			out = append(out, fmt.Sprintf("Print(%q)", s.Grapheme))
		case ansi.C0:
			out = append(out, fmt.Sprintf("C0(%02X)", rune(s)))
		case ansi.ESC:
			out = append(out, fmt.Sprintf("ESC(%q,%q)", string(s.Intermediate), s.Final))
		case ansi.CSI:
			out = append(out, fmt.Sprintf("CSI(%q,%v,%q)", string(s.Intermediate), s.Parameters, s.Final))
		case ansi.OSC:
			out = append(out, fmt.Sprintf("OSC(%q)", string(s.Payload)))
		case ansi.DCS:
			out = append(out, fmt.Sprintf("DCS(%q,%v,%q,%q)", string(s.Intermediate), s.Parameters, s.Final, string(s.Data)))
		case ansi.APC:
			out = append(out, fmt.Sprintf("APC(%q)", s.Data))
		case ansi.SS3:
			out = append(out, fmt.Sprintf("SS3(%q)", rune(s)))
		case ansi.EOF:
			out = append(out, "EOF")
		case error:
			// diagnostics are not sequences
		}
	}
	return strings.Join(out, " ")
}

func check(t *testing.T, in, want string) {
	t.Helper()
	for name, r := range map[string]io.Reader{
		"whole":  bytes.NewReader([]byte(in)),
		"1-byte": iotest.OneByteReader(bytes.NewReader([]byte(in))),
	} {
		if got := run(r); got != want {
			t.Errorf("input %q (%s reads)\n  delivered: %s\n  expected:  %s", in, name, got, want)
		}
	}
}

// A device control string whose header is malformed by a non-ASCII character
// is abandoned (the parser returns to ground and prints what follows), but
// the "suppress the next ST" flag set on DCS entry stays armed: an unrelated,
// complete ESC \ sequence much later in the stream is swallowed.
func TestAbandonedDCSHeaderSwallowsLaterEscBackslash(t *testing.T) {
	// control: without the abandoned DCS header ESC \ is delivered
	check(t, "hi\x1b\\x", `Print("h") Print("i") ESC("",'\\') Print("x") EOF`)
	// control: a CSI abandoned the same way does not disturb what follows
	check(t, "\x1b[1éhi\x1b\\x", `Print("h") Print("i") ESC("",'\\') Print("x") EOF`)
	// the violation: dcs param state
	check(t, "\x1bP1éhi\x1b\\x", `Print("h") Print("i") ESC("",'\\') Print("x") EOF`)
	// the violation: dcs intermediate state
	check(t, "\x1bP$éhi\x1b\\x", `Print("h") Print("i") ESC("",'\\') Print("x") EOF`)
}
