package demo

import (
	"strings"
	"syscall"
	"testing"
	"time"

	"git.sr.ht/~rockorager/vaxis"
)

// SIGTERM arrives while the application goroutine is inside Render, blocked
// writing the frame to a terminal that is slow to take it. The signal handler
// runs Close on the input goroutine. After Close has finished every mode
// start-up set must be reset again.
func TestSigtermDuringRender(t *testing.T) {
	cleanEnv()
	ft := newFakeTerm()
	vx, err := vaxis.New(vaxis.Options{WithConsole: ft})
	if err != nil {
		t.Fatal(err)
	}
	for len(ft.da1) > 0 {
		<-ft.da1
	}
	// the frame write blocks until we open the gate
	ft.gate = make(chan struct{})
	ft.gateOn = []byte("FRAMEMARK")
	vx.Window().Print(vaxis.Segment{Text: "FRAMEMARK"})
	renderDone := make(chan struct{})
	go func() { vx.Render(); close(renderDone) }()
	<-ft.gateHit // Render is now inside the console write

	syscall.Kill(syscall.Getpid(), syscall.SIGTERM)
	// Close (on the input goroutine) sends DA1 to wake the parser, then
	// goes on to disableModes
	select {
	case <-ft.da1:
	case <-time.After(2 * time.Second):
		t.Fatal("signal handler did not start Close")
	}
	time.Sleep(200 * time.Millisecond)
	close(ft.gate) // the terminal takes the frame
	<-renderDone
	select {
	case <-ft.closed: // Close got as far as console.Close()
	case <-time.After(2 * time.Second):
		t.Fatal("Close did not finish")
	}
	time.Sleep(50 * time.Millisecond)

	out := ft.output()
	st := interpret(out, 0)
	names := map[int]string{1: "application cursor keys", 1002: "mouse button events", 1003: "mouse all events", 1004: "focus events", 1006: "SGR mouse", 2004: "bracketed paste", 1049: "alternate screen"}
	bad := false
	for _, m := range []int{1049, 1, 1002, 1003, 1004, 1006, 2004} {
		if st.dec[m] {
			bad = true
			t.Errorf("after Close: mode %d (%s) is still set", m, names[m])
		}
	}
	if !st.dec[25] {
		bad = true
		t.Errorf("after Close: cursor hidden")
	}
	if bad {
		i := strings.LastIndex(out, "\x1b[24;1H")
		t.Logf("everything the console received after the last row of the frame: %q", strings.TrimLeft(out[i+7:], " "))
	}
}
