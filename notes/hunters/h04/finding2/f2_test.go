package demo

import (
	"testing"

	"git.sr.ht/~rockorager/vaxis"
)

// A session that ends while suspended: Suspend, then Close (e.g. a deferred
// Close). The shell had one entry on the kitty keyboard stack before vaxis
// started; it must still be there afterwards.
func TestSuspendThenClose(t *testing.T) {
	cleanEnv()
	ft := newFakeTerm()
	ft.kitty = true
	vx, err := vaxis.New(vaxis.Options{WithConsole: ft, NoSignals: true})
	if err != nil {
		t.Fatal(err)
	}
	const prior = 1 // the shell's own kitty keyboard entry
	vx.Window().Print(vaxis.Segment{Text: "hi"})
	vx.Render()
	if err := vx.Suspend(); err != nil {
		t.Fatal(err)
	}
	afterSuspend := interpret(ft.output(), prior)
	if afterSuspend.kittyDepth != prior {
		t.Fatalf("after Suspend: kitty stack depth %d, want %d", afterSuspend.kittyDepth, prior)
	}
	vx.Close()
	afterClose := interpret(ft.output(), prior)
	t.Logf("kitty stack depth: before start %d, after Suspend %d, after Close %d", prior, afterSuspend.kittyDepth, afterClose.kittyDepth)
	if afterClose.kittyDepth != prior {
		t.Errorf("after Suspend+Close the kitty keyboard stack has %d entries, before start it had %d: Close popped an entry vaxis never pushed", afterClose.kittyDepth, prior)
	}
}
