package demo

import (
	"syscall"
	"testing"
	"time"

	"git.sr.ht/~rockorager/vaxis"
)

// The usual application shape: an event loop that leaves on QuitEvent, with
// `defer vx.Close()`. SIGTERM makes the library call Close on its input
// goroutine; that Close posts QuitEvent first and restores the terminal
// afterwards. The application's own Close then returns at once ("a second
// Close is harmless"), but the terminal has not been restored when it returns,
// and main would exit the process at that point.
func TestCloseReturnsBeforeRestore(t *testing.T) {
	cleanEnv()
	ft := newFakeTerm()
	vx, err := vaxis.New(vaxis.Options{WithConsole: ft})
	if err != nil {
		t.Fatal(err)
	}
	ft.latency = 100 * time.Millisecond // an ordinary terminal round trip (ssh)
	vx.Window().Print(vaxis.Segment{Text: "hi"})
	vx.Render()

	syscall.Kill(syscall.Getpid(), syscall.SIGTERM)
	deadline := time.After(2 * time.Second)
loop:
	for {
		select {
		case ev := <-vx.Events():
			if _, ok := ev.(vaxis.QuitEvent); ok {
				break loop
			}
		case <-deadline:
			t.Fatal("no QuitEvent")
		}
	}
	vx.Close() // the application's deferred Close
	st := interpret(ft.output(), 0)
	// main() would return here
	for _, m := range []int{1049, 1, 1002, 1003, 1004, 1006, 2004} {
		if st.dec[m] {
			t.Errorf("Close has returned: mode %d is still set", m)
		}
	}
	if !st.dec[25] {
		t.Errorf("Close has returned: cursor is hidden")
	}
	// for comparison: the state once the library's own Close is through
	select {
	case <-ft.closed:
	case <-time.After(2 * time.Second):
		t.Fatal("library Close never finished")
	}
	time.Sleep(20 * time.Millisecond)
	st = interpret(ft.output(), 0)
	t.Logf("150ms later (library Close finished): altscreen=%v mouse=%v cursorVisible=%v", st.dec[1049], st.dec[1003], st.dec[25])
}
