package demo

import (
	"bytes"
	"io"
	"os"
	"regexp"
	"strconv"
	"sync"
	"time"

	"github.com/containerd/console"
)

// fakeTerm is an in-memory console. It records everything written to it and
// answers the queries vaxis needs (DSR-CPR, DA1, optionally the kitty
// keyboard query).
type fakeTerm struct {
	mu      sync.Mutex
	out     bytes.Buffer
	in      chan []byte
	rest    []byte
	closed  chan struct{}
	once    sync.Once
	kitty   bool          // answer CSI ? u
	latency time.Duration // delay before a reply is readable
	// gate: a Write containing gateOn blocks until gate is closed
	gateOn  []byte
	gate    chan struct{}
	gateHit chan struct{}
	da1     chan struct{} // receives a token for every DA1 query seen
}

func newFakeTerm() *fakeTerm {
	return &fakeTerm{
		in:      make(chan []byte, 256),
		closed:  make(chan struct{}),
		gateHit: make(chan struct{}, 16),
		da1:     make(chan struct{}, 64),
	}
}

func (f *fakeTerm) reply(s string) {
	if f.latency > 0 {
		go func() { time.Sleep(f.latency); f.in <- []byte(s) }()
		return
	}
	f.in <- []byte(s)
}

func (f *fakeTerm) Write(p []byte) (int, error) {
	if f.gateOn != nil && bytes.Contains(p, f.gateOn) {
		f.gateHit <- struct{}{}
		<-f.gate // a terminal that is slow to take the frame
	}
	f.mu.Lock()
	f.out.Write(p)
	f.mu.Unlock()
	// answer queries in order of appearance
	for i := 0; i < len(p); i++ {
		switch {
		case bytes.HasPrefix(p[i:], []byte("\x1b[6n")):
			f.reply("\x1b[1;1R")
		case bytes.HasPrefix(p[i:], []byte("\x1b[?u")):
			if f.kitty {
				f.reply("\x1b[?0u")
			}
		case bytes.HasPrefix(p[i:], []byte("\x1b[c")):
			select {
			case f.da1 <- struct{}{}:
			default:
			}
			f.reply("\x1b[?62;22c")
		}
	}
	return len(p), nil
}

func (f *fakeTerm) Read(p []byte) (int, error) {
	if len(f.rest) == 0 {
		select {
		case b := <-f.in:
			f.rest = b
		case <-f.closed:
			return 0, io.EOF
		}
	}
	n := copy(p, f.rest)
	f.rest = f.rest[n:]
	return n, nil
}

func (f *fakeTerm) Close() error                       { f.once.Do(func() { close(f.closed) }); return nil }
func (f *fakeTerm) Fd() uintptr                        { return ^uintptr(0) }
func (f *fakeTerm) Name() string                       { return "fake" }
func (f *fakeTerm) Resize(console.WinSize) error       { return nil }
func (f *fakeTerm) ResizeFrom(console.Console) error   { return nil }
func (f *fakeTerm) SetRaw() error                      { return nil }
func (f *fakeTerm) DisableEcho() error                 { return nil }
func (f *fakeTerm) Reset() error                       { return nil }
func (f *fakeTerm) Size() (console.WinSize, error) {
	return console.WinSize{Width: 80, Height: 24}, nil
}

func (f *fakeTerm) output() string {
	f.mu.Lock()
	defer f.mu.Unlock()
	return f.out.String()
}

// termState is the part of a terminal's mode table the demos look at.
type termState struct {
	dec        map[int]bool // DEC private modes that are set
	kittyDepth int          // entries on the kitty keyboard stack (relative to start)
}

var reSeq = regexp.MustCompile(`\x1b\[\?([0-9;]+)([hl])|\x1b\[>([0-9]+)u|\x1b\[<([0-9]*)u`)

func interpret(out string, kittyStart int) termState {
	st := termState{dec: map[int]bool{}, kittyDepth: kittyStart}
	for _, m := range reSeq.FindAllStringSubmatch(out, -1) {
		switch {
		case m[2] != "":
			for _, s := range regexp.MustCompile(`[0-9]+`).FindAllString(m[1], -1) {
				n, _ := strconv.Atoi(s)
				st.dec[n] = m[2] == "h"
			}
		case m[3] != "":
			st.kittyDepth++
		default:
			n := 1
			if m[4] != "" {
				n, _ = strconv.Atoi(m[4])
			}
			st.kittyDepth -= n
			if st.kittyDepth < 0 {
				st.kittyDepth = 0
			}
		}
	}
	return st
}

func cleanEnv() {
	os.Unsetenv("COLORTERM")
	for _, k := range []string{"VAXIS_LOG_LEVEL", "VAXIS_GRAPHICS", "VAXIS_FORCE_LEGACY_SGR", "VAXIS_FORCE_WCWIDTH", "VAXIS_FORCE_UNICODE", "VAXIS_FORCE_NOZWJ", "VAXIS_DISABLE_NOZWJ", "VAXIS_FORCE_XTWINOPS", "ASCIINEMA_REC"} {
		os.Unsetenv(k)
	}
}
