package demo

import "testing"

// SetCursor accepts any index: on a 5-item list SetCursor(100) leaves the
// selected index at 100, no item is drawn selected, and Prev/NextItem are
// stuck because the neighbours of item 100 do not exist.
func TestSetCursorKeepsIndexInRange(t *testing.T) {
	heights := []uint16{1, 1, 1, 1, 1}
	d := newList(&heights, 0)
	const H = 3
	draw(d, H)
	d.SetCursor(100)
	s := draw(d, H)
	if c := d.Cursor(); c >= uint(len(heights)) {
		t.Errorf("SetCursor(100) on %d items, Draw: Cursor()=%d (out of range)", len(heights), c)
	}
	if !visible(s, d.Cursor(), H) {
		t.Errorf("SetCursor + Draw: selected item not inside the viewport")
	}
	d.PrevItem()
	draw(d, H)
	if c := d.Cursor(); c >= uint(len(heights)) {
		t.Errorf("PrevItem afterwards: Cursor()=%d, still out of range", c)
	}
}
