package demo

import "testing"

// Items of height 1 separated by Gap=1 in a 4-row viewport. Moving the
// selection to item 2 and drawing shows it (rows -1,1,3), but the gap row of
// item 0 now sits on viewport row 0, no child "spans row 0", so Draw leaves
// top/offset at their old values. The very next Draw (a plain redraw, no
// operation in between) falls back to the old position and the selected item
// is outside the viewport.
func TestSelectedStaysVisibleWithGap(t *testing.T) {
	heights := []uint16{1, 1, 1, 1, 1, 1}
	d := newList(&heights, 1)
	const H = 4
	draw(d, H)
	d.NextItem()
	d.NextItem() // selection change: cursor = 2
	s := draw(d, H)
	for _, ch := range s.Children {
		t.Logf("draw 1: item %d at row %d", ch.Surface.Widget.(*item).idx, ch.Origin.Row)
	}
	if !visible(s, 2, H) {
		t.Fatalf("draw after selection change does not show item 2")
	}
	s = draw(d, H) // redraw, nothing happened in between
	for _, ch := range s.Children {
		t.Logf("draw 2: item %d at row %d", ch.Surface.Widget.(*item).idx, ch.Origin.Row)
	}
	if !visible(s, d.Cursor(), H) {
		t.Errorf("selection change, Draw, Draw: selected item %d is no longer inside the %d-row viewport", d.Cursor(), H)
	}
}
