package demo

import (
	"git.sr.ht/~rockorager/vaxis"
	"git.sr.ht/~rockorager/vaxis/vxfw"
	"git.sr.ht/~rockorager/vaxis/vxfw/list"
)

// item is a list item of a fixed height that knows its own index.
type item struct {
	idx uint
	h   uint16
}

func (it *item) HandleEvent(vaxis.Event, vxfw.EventPhase) (vxfw.Command, error) { return nil, nil }
func (it *item) Draw(ctx vxfw.DrawContext) (vxfw.Surface, error) {
	return vxfw.NewSurface(ctx.Max.Width, it.h, it), nil
}

// newList returns a Dynamic over *heights (the slice may be replaced later).
func newList(heights *[]uint16, gap int) *list.Dynamic {
	d := &list.Dynamic{Gap: gap}
	d.Builder = func(i uint, _ uint) vxfw.Widget {
		if i >= uint(len(*heights)) {
			return nil
		}
		return &item{idx: i, h: (*heights)[i]}
	}
	return d
}

func draw(d *list.Dynamic, h uint16) vxfw.Surface {
	s, err := d.Draw(vxfw.DrawContext{Max: vxfw.Size{Width: 10, Height: h}})
	if err != nil {
		panic(err)
	}
	return s
}

// visible reports whether item idx intersects rows [0,h) of the drawn surface.
func visible(s vxfw.Surface, idx uint, h uint16) bool {
	for _, ch := range s.Children {
		it, _ := ch.Surface.Widget.(*item)
		if it != nil && it.idx == idx &&
			ch.Origin.Row < int(h) && ch.Origin.Row+int(ch.Surface.Size.Height) > 0 {
			return true
		}
	}
	return false
}
