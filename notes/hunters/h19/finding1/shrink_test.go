package demo

import "testing"

// Item replacement: the list shrinks from 10 items to 3 while item 9 is
// selected. The property demands that the selected index stays within range.
func TestCursorStaysInRangeAfterShrink(t *testing.T) {
	heights := []uint16{1, 1, 1, 1, 1, 1, 1, 1, 1, 1}
	d := newList(&heights, 0)
	const H = 4
	draw(d, H)
	for i := 0; i < 9; i++ {
		d.NextItem()
	}
	draw(d, H)
	if d.Cursor() != 9 {
		t.Fatalf("setup: cursor=%d", d.Cursor())
	}

	heights = []uint16{1, 1, 1} // replace the items: only 3 remain
	s := draw(d, H)
	if c := d.Cursor(); c >= uint(len(heights)) {
		t.Errorf("after shrink to %d items + Draw: Cursor()=%d (out of range)", len(heights), c)
	}
	if !visible(s, d.Cursor(), H) {
		t.Errorf("after shrink + Draw: selected item %d is not among the drawn items", d.Cursor())
	}

	// Navigation cannot recover either: PrevItem asks the builder for
	// cursor-1 (=8), which does not exist, and gives up.
	d.PrevItem()
	d.NextItem()
	s = draw(d, H)
	if c := d.Cursor(); c >= uint(len(heights)) {
		t.Errorf("after PrevItem, NextItem, Draw: Cursor()=%d still out of range of %d items", c, len(heights))
	}
	if !visible(s, d.Cursor(), H) {
		t.Errorf("after PrevItem + Draw: no selected item visible")
	}
}
