package demo

import (
	"fmt"
	"io"
	"sync"
	"testing"
	"time"

	"git.sr.ht/~rockorager/vaxis/ansi"
)

// chunkReader returns exactly the chunks it is fed, one per Read, and blocks
// while there is none (like a terminal).
type chunkReader struct {
	ch    chan []byte
	mu    sync.Mutex
	reads int // number of Read calls that have returned
}

func (r *chunkReader) Read(p []byte) (int, error) {
	b, ok := <-r.ch
	r.mu.Lock()
	r.reads++
	r.mu.Unlock()
	if !ok {
		return 0, io.EOF
	}
	return copy(p, b), nil
}

func (r *chunkReader) returned() int {
	r.mu.Lock()
	defer r.mu.Unlock()
	return r.reads
}

// closeAfterChunk: the consumer drains everything; Close is called, then the
// reader returns once with `chunk`. The property demands that the parser then
// stops: exactly one EOF, as the last item, and the channel is closed.
func closeAfterChunk(t *testing.T, chunk []byte) {
	r := &chunkReader{ch: make(chan []byte)}
	p := ansi.NewParser(r)
	var items []string
	done := make(chan struct{})
	go func() {
		for seq := range p.Next() {
			items = append(items, fmt.Sprintf("%v", seq))
			p.Finish(seq)
		}
		close(done)
	}()
	r.ch <- []byte("x") // the parser is now blocked in its next Read
	time.Sleep(50 * time.Millisecond)
	p.Close()
	r.ch <- chunk // "the reader returning"
	select {
	case <-done:
		t.Logf("chunk %q: parser stopped, items %q", chunk, items)
	case <-time.After(2 * time.Second):
		t.Errorf("chunk %q: Close followed by the reader returning (Read calls returned: %d) did NOT stop the parser within 2s: no EOF, channel still open; the parser sits in another Read",
			chunk, r.returned())
		// let the goroutines go
		close(r.ch)
		<-done
		t.Logf("items after the reader finally failed: %q", items)
	}
}

func TestCloseThenCompleteChunk(t *testing.T)   { closeAfterChunk(t, []byte("a")) }        // control: passes
func TestCloseThenLeadByteOnly(t *testing.T)    { closeAfterChunk(t, []byte("\xe2")) }     // readRune blocks
func TestCloseThenCharAndLeadByte(t *testing.T) { closeAfterChunk(t, []byte("a\xe2\x82")) } // print() look-ahead blocks

// Without Close: a complete character that has arrived is withheld for as long
// as the byte after it is the start of an unfinished multi-byte character.
func TestCompleteCharWithheld(t *testing.T) {
	r := &chunkReader{ch: make(chan []byte)}
	p := ansi.NewParser(r)
	r.ch <- []byte("a\xf0\x9f")
	select {
	case seq := <-p.Next():
		t.Logf("got %v", seq)
	case <-time.After(2 * time.Second):
		t.Errorf("'a' arrived 2s ago and has not been delivered (parser blocked in print's look-ahead holding its mutex)")
	}
	close(r.ch)
	for range p.Next() {
	}
}
