package demo

import (
	"fmt"
	"io"
	"sync"
	"testing"
	"time"

	"git.sr.ht/~rockorager/vaxis/ansi"
)

// timedReader holds chunks from the moment they "arrive"; every Read returns
// one chunk (never two joined together) and blocks while there is none.
type timedReader struct {
	mu     sync.Mutex
	cond   *sync.Cond
	chunks [][]byte
	eof    bool
}

func newTimedReader() *timedReader {
	r := &timedReader{}
	r.cond = sync.NewCond(&r.mu)
	return r
}

func (r *timedReader) arrive(b []byte) {
	r.mu.Lock()
	r.chunks = append(r.chunks, b)
	r.mu.Unlock()
	r.cond.Broadcast()
}

func (r *timedReader) end() {
	r.mu.Lock()
	r.eof = true
	r.mu.Unlock()
	r.cond.Broadcast()
}

func (r *timedReader) Read(p []byte) (int, error) {
	r.mu.Lock()
	defer r.mu.Unlock()
	for len(r.chunks) == 0 {
		if r.eof {
			return 0, io.EOF
		}
		r.cond.Wait()
	}
	b := r.chunks[0]
	r.chunks = r.chunks[1:]
	return copy(p, b), nil
}

// A lone ESC arrives, then 90 ms of silence (nine times the 10 ms delay), then
// "[A". The property: the ESC is reported as the Escape key exactly once and
// "[A" is then parsed from ground (two printed characters), for all consumer
// speeds.
func lonelyEsc(t *testing.T, consumerDelay time.Duration) {
	r := newTimedReader()
	p := ansi.NewParser(r)
	var items []string
	done := make(chan struct{})
	go func() {
		for seq := range p.Next() {
			items = append(items, fmt.Sprintf("%v", seq))
			p.Finish(seq)
			time.Sleep(consumerDelay)
		}
		close(done)
	}()
	r.arrive([]byte("abcdefghij"))
	time.Sleep(10 * time.Millisecond)
	r.arrive([]byte{0x1b})
	time.Sleep(90 * time.Millisecond)
	r.arrive([]byte("[A"))
	time.Sleep(600 * time.Millisecond)
	r.end()
	<-done
	tail := items[10:]
	want := []string{"C0 0x1B", `Print: "["`, `Print: "A"`, "EOF"}
	if fmt.Sprint(tail) != fmt.Sprint(want) {
		t.Errorf("consumer delay %v: ESC, 90ms silence, \"[A\" delivered as %q, want %q", consumerDelay, tail, want)
	} else {
		t.Logf("consumer delay %v: %q", consumerDelay, tail)
	}
}

func TestLonelyEscFastConsumer(t *testing.T) { lonelyEsc(t, 0) }                     // control: passes
func TestLonelyEscSlowConsumer(t *testing.T) { lonelyEsc(t, 30*time.Millisecond) } // fails
