module demo

go 1.18

require git.sr.ht/~rockorager/vaxis v0.0.0

require github.com/rivo/uniseg v0.4.4 // indirect

replace git.sr.ht/~rockorager/vaxis => /tmp/hunt/h08/repo
