module finding2

go 1.23

require (
	git.sr.ht/~rockorager/vaxis v0.0.0
	github.com/containerd/console v1.0.3
)

require (
	github.com/creack/pty v1.1.18 // indirect
	github.com/mattn/go-runewidth v0.0.14 // indirect
	github.com/mattn/go-sixel v0.0.5 // indirect
	github.com/rivo/uniseg v0.4.4 // indirect
	github.com/soniakeys/quant v1.0.0 // indirect
	golang.org/x/image v0.9.0 // indirect
	golang.org/x/sys v0.10.0 // indirect
)

replace git.sr.ht/~rockorager/vaxis => /tmp/hunt/h13/repo
