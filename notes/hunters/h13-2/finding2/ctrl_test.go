package finding2

import (
	"testing"

	"git.sr.ht/~rockorager/vaxis"
)

// Ctrl with a lower-case letter outside ASCII (any non-US layout under the
// kitty keyboard protocol: Ctrl+é, Ctrl+ß, Ctrl+с (Cyrillic es, the physical
// C key) ...). There is no control code for these keys; xterm sends the
// character itself. Whatever is sent must at least decode to the same key.
func TestCtrlWithNonASCIILowerCaseLetter(t *testing.T) {
	h := newHost(t)
	for _, r := range []rune{0xE9, 0xDF, 0xF1, 0x3B1, 0x441, 0x436, 0x561} {
		for _, mods := range []vaxis.ModifierMask{vaxis.ModCtrl, vaxis.ModCtrl | vaxis.ModShift} {
			key := vaxis.Key{Keycode: r, Modifiers: mods}
			ch := newChild(t, "")
			out := ch.sent(key)
			back := h.decode(out)
			ok := false
			for _, ev := range back {
				if k, isKey := ev.(vaxis.Key); isKey && k.Keycode == r {
					ok = true
				}
			}
			if !ok {
				t.Errorf("%v (U+%04X): widget wrote %q (% x) to the child, which decodes to %v: not the key that was pressed",
					key, r, out, out, back)
			}
		}
	}
}
