package finding3

import (
	"testing"

	"git.sr.ht/~rockorager/vaxis"
)

// Ctrl+_ (typed Ctrl+Shift+- on a US layout; the kitty protocol reports it as
// key '-', shifted key '_', Ctrl|Shift) is a chord xterm's legacy encoding
// expresses: 0x1F, which Vaxis decodes as Ctrl+_. Likewise Ctrl+~ = 0x1E and
// Ctrl+` = NUL.
func TestCtrlShiftPunctuation(t *testing.T) {
	h := newHost(t)
	// what the host's Vaxis delivers for the kitty report of Ctrl+Shift+-
	evs := h.decode([]byte("\x1b[45:95;6u"))
	if len(evs) != 1 {
		t.Fatalf("host decode: %v", evs)
	}
	key := evs[0].(vaxis.Key)
	if !key.Matches('_', vaxis.ModCtrl) {
		t.Fatalf("unexpected host event %#v", key)
	}
	ch := newChild(t, "")
	out := ch.sent(key)
	back := h.decode(out)
	ok := len(back) == 1
	if ok {
		k, isKey := back[0].(vaxis.Key)
		ok = isKey && k.Modifiers&vaxis.ModCtrl != 0 && (k.Matches('_', vaxis.ModCtrl) || k.Matches('-', vaxis.ModCtrl, vaxis.ModShift))
	}
	if !ok {
		t.Errorf("%v (shifted code %q): widget wrote %q to the child, which decodes to %v; xterm sends \"\\x1f\", which decodes to %v",
			key, key.ShiftedCode, out, back, h.decode([]byte{0x1f}))
	}
}
