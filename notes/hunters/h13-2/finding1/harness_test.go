package finding1

import (
	"bytes"
	"io"
	"os"
	"strings"
	"sync"
	"testing"
	"time"

	"git.sr.ht/~rockorager/vaxis"
	"git.sr.ht/~rockorager/vaxis/ansi"
	"git.sr.ht/~rockorager/vaxis/widgets/term"
	"github.com/containerd/console"
)

// ---- fake console ----
type fakeCon struct {
	mu     sync.Mutex
	cond   *sync.Cond
	in     []byte
	closed bool
}

func newCon() *fakeCon { c := &fakeCon{}; c.cond = sync.NewCond(&c.mu); return c }
func (c *fakeCon) Read(p []byte) (int, error) {
	c.mu.Lock()
	defer c.mu.Unlock()
	for len(c.in) == 0 && !c.closed {
		c.cond.Wait()
	}
	if len(c.in) == 0 {
		return 0, io.EOF
	}
	n := copy(p, c.in)
	c.in = c.in[n:]
	return n, nil
}
func (c *fakeCon) inject(b []byte) {
	c.mu.Lock()
	c.in = append(c.in, b...)
	c.cond.Broadcast()
	c.mu.Unlock()
}
func (c *fakeCon) Write(p []byte) (int, error) {
	if bytes.Contains(p, []byte("\x1b[6n")) {
		c.inject([]byte("\x1b[1;1R"))
	}
	if bytes.Contains(p, []byte("\x1b[c")) {
		c.inject([]byte("\x1b[?62;22c"))
	}
	return len(p), nil
}
func (c *fakeCon) Close() error {
	c.mu.Lock()
	c.closed = true
	c.cond.Broadcast()
	c.mu.Unlock()
	return nil
}
func (c *fakeCon) Fd() uintptr                        { return ^uintptr(0) }
func (c *fakeCon) Name() string                       { return "fake" }
func (c *fakeCon) Resize(console.WinSize) error       { return nil }
func (c *fakeCon) ResizeFrom(console.Console) error   { return nil }
func (c *fakeCon) SetRaw() error                      { return nil }
func (c *fakeCon) DisableEcho() error                 { return nil }
func (c *fakeCon) Reset() error                       { return nil }
func (c *fakeCon) Size() (console.WinSize, error)     { return console.WinSize{Width: 80, Height: 24}, nil }

type host struct {
	con *fakeCon
	vx  *vaxis.Vaxis
}

func newHost(t testing.TB) *host {
	os.Unsetenv("COLORTERM")
	for _, e := range os.Environ() {
		if strings.HasPrefix(e, "VAXIS_") {
			os.Unsetenv(strings.SplitN(e, "=", 2)[0])
		}
	}
	con := newCon()
	vx, err := vaxis.New(vaxis.Options{WithConsole: con})
	if err != nil {
		t.Fatal(err)
	}
	h := &host{con, vx}
	// drain startup events
	h.decode(nil)
	return h
}

const sentKey = 0xF0000

// decode feeds bytes (as a child reading the widget's output would) to a
// Vaxis instance and returns the events it delivers.
func (h *host) decode(b []byte) []vaxis.Event {
	h.con.inject(append(append([]byte{}, b...), []byte("\x1b[983040;1:1u")...))
	var evs []vaxis.Event
	to := time.After(3 * time.Second)
	for {
		select {
		case ev := <-h.vx.Events():
			if k, ok := ev.(vaxis.Key); ok && k.Keycode == sentKey {
				return evs
			}
			evs = append(evs, ev)
		case <-to:
			return append(evs, vaxis.Key{Text: "TIMEOUT"})
		}
	}
}

// ---- widget side ----
type child struct {
	vt     *term.Model
	pr, pw *os.File
}

func newChild(t testing.TB, modes string) *child {
	pr, pw, err := os.Pipe()
	if err != nil {
		t.Fatal(err)
	}
	vt := term.NewVerif(pw, 300, 250)
	c := &child{vt, pr, pw}
	c.feed(modes)
	return c
}

// feed applies bytes the child program writes to its terminal
func (c *child) feed(s string) {
	p := ansi.NewParser(strings.NewReader(s))
	for seq := range p.Next() {
		if _, ok := seq.(ansi.EOF); ok {
			p.Finish(seq)
			break
		}
		c.vt.VerifFeed(seq)
	}
}

// sent returns what Update wrote towards the child
func (c *child) sent(ev vaxis.Event) []byte {
	c.vt.Update(ev)
	c.pw.Write([]byte{0xff})
	var out []byte
	buf := make([]byte, 4096)
	for {
		n, err := c.pr.Read(buf)
		out = append(out, buf[:n]...)
		if err != nil || (len(out) > 0 && out[len(out)-1] == 0xff) {
			break
		}
	}
	return out[:len(out)-1]
}
