package finding1

import (
	"testing"

	"git.sr.ht/~rockorager/vaxis"
)

// The host terminal is in application keypad mode (Vaxis enables DECKPAM
// itself), so a legacy terminal reports the keypad digits and operators as
// SS3 sequences. Vaxis decodes them to KeyKeyPad0..9 / KeyKeyPadAdd ... WITHOUT
// Text. Forwarding exactly that event to the embedded terminal must write the
// key to the child: SS3 <final> when the child selected DECKPAM, the digit or
// operator in numeric mode. Re-parsed, the bytes must give one key event for
// the same key.
func TestKeypadKeysDecodedFromSS3ReachTheChild(t *testing.T) {
	h := newHost(t)
	numeric := map[byte]string{'j': "*", 'k': "+", 'l': ",", 'm': "-", 'n': ".", 'o': "/", 'X': "=",
		'p': "0", 'q': "1", 'r': "2", 's': "3", 't': "4", 'u': "5", 'v': "6", 'w': "7", 'x': "8", 'y': "9"}
	for _, mode := range []struct{ name, seq string }{{"DECKPAM", "\x1b="}, {"DECKPNM", "\x1b>"}} {
		for final, txt := range numeric {
			in := []byte{0x1b, 'O', final}
			evs := h.decode(in)
			if len(evs) != 1 {
				t.Fatalf("host decode of %q: %v", in, evs)
			}
			key := evs[0].(vaxis.Key)
			ch := newChild(t, mode.seq)
			out := ch.sent(key)
			back := h.decode(out)
			ok := false
			if len(back) == 1 {
				if k, isKey := back[0].(vaxis.Key); isKey {
					ok = k.Keycode == key.Keycode || (mode.name == "DECKPNM" && k.Text == txt)
				}
			}
			if !ok {
				t.Errorf("child in %s: host bytes %q decoded to %v (Text %q); widget wrote %q to the child, which decodes to %v",
					mode.name, in, key, key.Text, out, back)
			}
		}
	}
}
