package demo

import (
	"os"
	"strings"
	"testing"
	"time"

	"git.sr.ht/~rockorager/vaxis"
	"git.sr.ht/~rockorager/vaxis/vxfw"
)

func newApp(t *testing.T) *vxfw.App {
	os.Unsetenv("COLORTERM")
	app, err := vxfw.NewApp(vaxis.Options{WithConsole: newFakeConsole()})
	if err != nil {
		t.Fatal(err)
	}
	return app
}

// D: QuitCmd returned by a MouseEnter handler that is delivered from the
// frame tick (widget appears under a resting pointer).
func TestQuitFromMouseEnterOnRedraw(t *testing.T) {
	var log []string
	a := &W{name: "A", width: 5, height: 1, log: &log}
	r := &W{name: "R", width: 40, height: 10, log: &log}
	r.onEvent = func(ev vaxis.Event, p vxfw.EventPhase) vxfw.Command {
		switch ev := ev.(type) {
		case vxfw.Init:
			return vxfw.RedrawCmd{}
		case vaxis.Key:
			if ev.Keycode == 'n' {
				r.kids = []kid{{0, 0, a}}
				return vxfw.RedrawCmd{}
			}
		}
		return nil
	}
	a.onEvent = func(ev vaxis.Event, p vxfw.EventPhase) vxfw.Command {
		if _, ok := ev.(vxfw.MouseEnter); ok {
			return vxfw.QuitCmd{}
		}
		return nil
	}
	app := newApp(t)
	done := make(chan error, 1)
	go func() { done <- app.Run(r) }()
	time.Sleep(100 * time.Millisecond)
	app.PostEvent(vaxis.Mouse{Col: 1, Row: 0, EventType: vaxis.EventMotion})
	time.Sleep(50 * time.Millisecond)
	app.PostEvent(vaxis.Key{Keycode: 'n'})
	select {
	case <-done:
		t.Log("quit ok\n" + strings.Join(log, "\n"))
	case <-time.After(2 * time.Second):
		t.Errorf("A returned QuitCmd from MouseEnter 2s ago, Run still running\n%s", strings.Join(log, "\n"))
		app.PostEvent(quitEv{})
		<-done
	}
}
