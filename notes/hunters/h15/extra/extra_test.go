package demo

import (
	"os"
	"strings"
	"testing"
	"time"

	"git.sr.ht/~rockorager/vaxis"
	"git.sr.ht/~rockorager/vaxis/vxfw"
)

func newApp(t *testing.T) *vxfw.App {
	os.Unsetenv("COLORTERM")
	app, err := vxfw.NewApp(vaxis.Options{WithConsole: newFakeConsole()})
	if err != nil {
		t.Fatal(err)
	}
	return app
}

// C: the target moves the focus without consuming the key; the newly focused
// widget answers its FocusIn with ConsumeEventCmd (vxfw.ConsumeAndRedraw()).
func TestConsumeOfFocusInLeaksIntoKey(t *testing.T) {
	var log []string
	a := &W{name: "A", width: 5, height: 1, log: &log}
	b := &W{name: "B", width: 5, height: 1, log: &log}
	r := &W{name: "R", width: 40, height: 10, log: &log, kids: []kid{{0, 0, a}, {0, 1, b}}}
	r.onEvent = func(ev vaxis.Event, p vxfw.EventPhase) vxfw.Command {
		if _, ok := ev.(vxfw.Init); ok {
			return vxfw.BatchCmd{vxfw.FocusWidgetCmd(a), vxfw.RedrawCmd{}}
		}
		return nil
	}
	a.onEvent = func(ev vaxis.Event, p vxfw.EventPhase) vxfw.Command {
		if k, ok := ev.(vaxis.Key); ok && k.Keycode == '1' && p == vxfw.TargetPhase {
			return vxfw.FocusWidgetCmd(b) // not consumed
		}
		return nil
	}
	b.onEvent = func(ev vaxis.Event, p vxfw.EventPhase) vxfw.Command {
		if _, ok := ev.(vaxis.FocusIn); ok {
			return vxfw.ConsumeAndRedraw()
		}
		return nil
	}
	run(t, r, func(app *vxfw.App) {
		app.PostEvent(vaxis.Key{Keycode: '1'})
	})
	t.Log("\n" + strings.Join(log, "\n"))
	if count(log, "R bubble Key(1)") != 1 {
		t.Errorf("no handler consumed Key(1) (A returned only a focus command), but it did not bubble to R: R bubble count = %d", count(log, "R bubble Key(1)"))
	}
}

// E: focus given to a widget that is not in the last frame yet (dialog
// created by the key handler); keys before the next frame
func TestFocusNewWidgetBubble(t *testing.T) {
	var log []string
	d := &W{name: "D", width: 5, height: 1, log: &log}
	a := &W{name: "A", width: 5, height: 1, log: &log}
	r := &W{name: "R", width: 40, height: 10, log: &log, kids: []kid{{0, 0, a}}}
	r.onEvent = func(ev vaxis.Event, p vxfw.EventPhase) vxfw.Command {
		switch ev := ev.(type) {
		case vxfw.Init:
			return vxfw.BatchCmd{vxfw.FocusWidgetCmd(a), vxfw.RedrawCmd{}}
		case vaxis.Key:
			if ev.Keycode == 'n' {
				r.kids = append(r.kids, kid{0, 1, d})
				return vxfw.BatchCmd{vxfw.FocusWidgetCmd(d), vxfw.RedrawCmd{}}
			}
		}
		return nil
	}
	run(t, r, func(app *vxfw.App) {
		app.PostEvent(vaxis.Key{Keycode: 'n'})
		app.PostEvent(vaxis.Key{Keycode: 'x'})
		time.Sleep(50 * time.Millisecond)
		app.PostEvent(vaxis.Key{Keycode: 'y'})
	})
	t.Log("\n" + strings.Join(log, "\n"))
	if count(log, "R bubble Key(x)") != 1 {
		t.Errorf("Key(x) not bubbled to root")
	}
}

// F: the same widget twice on the hit chain (a widget that wraps its own
// content surface in a bordered surface, both tagged with itself)
type selfWrap struct{ W }

func (w *selfWrap) Draw(ctx vxfw.DrawContext) (vxfw.Surface, error) {
	inner := vxfw.NewSurface(3, 1, w)
	outer := vxfw.NewSurface(5, 3, w)
	outer.AddChild(1, 1, inner)
	return outer, nil
}

func TestSameWidgetTwiceOnChain(t *testing.T) {
	var log []string
	s := &selfWrap{W{name: "S", log: &log}}
	r := &W{name: "R", width: 40, height: 10, log: &log}
	r.onEvent = func(ev vaxis.Event, p vxfw.EventPhase) vxfw.Command {
		if _, ok := ev.(vxfw.Init); ok {
			return vxfw.RedrawCmd{}
		}
		return nil
	}
	root := &rootWith{r, s}
	run(t, root, func(app *vxfw.App) {
		app.PostEvent(vaxis.Mouse{Col: 2, Row: 1, EventType: vaxis.EventMotion})
		app.PostEvent(vaxis.Mouse{Col: 0, Row: 0, EventType: vaxis.EventMotion})
		app.PostEvent(vaxis.Mouse{Col: 20, Row: 5, EventType: vaxis.EventMotion})
	})
	t.Log("\n" + strings.Join(log, "\n"))
	in := 0
	for _, l := range log {
		switch l {
		case "S target vxfw.MouseEnter":
			in++
		case "S target vxfw.MouseLeave":
			in--
		}
		if in > 1 || in < 0 {
			t.Errorf("S enter/leave do not alternate (depth %d)", in)
			break
		}
	}
}

type rootWith struct {
	*W
	s *selfWrap
}

func (r *rootWith) Draw(ctx vxfw.DrawContext) (vxfw.Surface, error) {
	surf := vxfw.NewSurface(40, 10, r)
	cs, _ := r.s.Draw(ctx)
	surf.AddChild(0, 0, cs)
	return surf, nil
}
