package demo

import (
	"strings"
	"testing"

	"git.sr.ht/~rockorager/vaxis"
	"git.sr.ht/~rockorager/vaxis/vxfw"
)

// A: the widget losing focus answers its FocusOut with a focus command.
func TestFocusOutHandlerMovesFocus(t *testing.T) {
	var log []string
	a := &W{name: "A", width: 5, height: 1, log: &log}
	b := &W{name: "B", width: 5, height: 1, log: &log}
	c := &W{name: "C", width: 5, height: 1, log: &log}
	r := &W{name: "R", width: 40, height: 10, log: &log, kids: []kid{{0, 0, a}, {0, 1, b}, {0, 2, c}}}
	r.onEvent = func(ev vaxis.Event, p vxfw.EventPhase) vxfw.Command {
		if _, ok := ev.(vxfw.Init); ok {
			return vxfw.BatchCmd{vxfw.FocusWidgetCmd(a), vxfw.RedrawCmd{}}
		}
		return nil
	}
	r.onCapture = func(ev vaxis.Event) vxfw.Command {
		if k, ok := ev.(vaxis.Key); ok && k.Keycode == '1' {
			return vxfw.FocusWidgetCmd(b)
		}
		return nil
	}
	first := true
	a.onEvent = func(ev vaxis.Event, p vxfw.EventPhase) vxfw.Command {
		if _, ok := ev.(vaxis.FocusOut); ok && first {
			first = false
			return vxfw.FocusWidgetCmd(c)
		}
		return nil
	}
	run(t, r, func(app *vxfw.App) {
		app.PostEvent(vaxis.Key{Keycode: '1'})
		app.PostEvent(vaxis.Key{Keycode: 'z'})
	})
	t.Log("\n" + strings.Join(log, "\n"))
	// per widget: focus-in and focus-out must alternate, and at the end
	// exactly one widget is "in"
	in := map[string]int{}
	for _, l := range log {
		f := strings.Fields(l)
		switch f[2] {
		case "vaxis.FocusIn":
			in[f[0]]++
			if in[f[0]] > 1 {
				t.Errorf("%s got a second FocusIn without FocusOut", f[0])
			}
		case "vaxis.FocusOut":
			in[f[0]]--
			if in[f[0]] < 0 && f[0] != "R" {
				t.Errorf("%s got a FocusOut without being focused (extra FocusOut)", f[0])
				in[f[0]] = 0
			}
		}
	}
	holders := []string{}
	for n, v := range in {
		if v > 0 {
			holders = append(holders, n)
		}
	}
	if len(holders) != 1 {
		t.Errorf("widgets that received FocusIn and no FocusOut afterwards: %v (want exactly one)", holders)
	}
	if n := count(log, "A target vaxis.FocusOut"); n != 1 {
		t.Errorf("A received %d FocusOut for one loss of focus", n)
	}
}
