package demo

import (
	"bytes"
	"fmt"
	"io"
	"os"
	"sync"
	"testing"
	"time"

	"git.sr.ht/~rockorager/vaxis"
	"git.sr.ht/~rockorager/vaxis/vxfw"
	"github.com/containerd/console"
)

// ---- fake console -------------------------------------------------------

type fakeConsole struct {
	mu     sync.Mutex
	cond   *sync.Cond
	in     bytes.Buffer
	closed bool
	tail   []byte
}

func newFakeConsole() *fakeConsole {
	f := &fakeConsole{}
	f.cond = sync.NewCond(&f.mu)
	return f
}

func (f *fakeConsole) Read(p []byte) (int, error) {
	f.mu.Lock()
	defer f.mu.Unlock()
	for f.in.Len() == 0 && !f.closed {
		f.cond.Wait()
	}
	if f.in.Len() == 0 {
		return 0, io.EOF
	}
	return f.in.Read(p)
}

func (f *fakeConsole) Write(p []byte) (int, error) {
	f.mu.Lock()
	defer f.mu.Unlock()
	f.tail = append(f.tail, p...)
	for {
		i := bytes.Index(f.tail, []byte("\x1b[6n"))
		if i < 0 {
			break
		}
		f.in.WriteString("\x1b[1;1R")
		f.tail = append(f.tail[:i:i], f.tail[i+4:]...)
	}
	for {
		i := bytes.Index(f.tail, []byte("\x1b[c"))
		if i < 0 {
			break
		}
		f.in.WriteString("\x1b[?62;22c")
		f.tail = append(f.tail[:i:i], f.tail[i+3:]...)
	}
	if len(f.tail) > 8 {
		f.tail = append([]byte{}, f.tail[len(f.tail)-8:]...)
	}
	f.cond.Broadcast()
	return len(p), nil
}

func (f *fakeConsole) Close() error {
	f.mu.Lock()
	f.closed = true
	f.cond.Broadcast()
	f.mu.Unlock()
	return nil
}
func (f *fakeConsole) Fd() uintptr                      { return ^uintptr(0) }
func (f *fakeConsole) Name() string                     { return "fake" }
func (f *fakeConsole) Resize(console.WinSize) error     { return nil }
func (f *fakeConsole) ResizeFrom(console.Console) error { return nil }
func (f *fakeConsole) SetRaw() error                    { return nil }
func (f *fakeConsole) DisableEcho() error               { return nil }
func (f *fakeConsole) Reset() error                     { return nil }
func (f *fakeConsole) Size() (console.WinSize, error) {
	return console.WinSize{Width: 40, Height: 10}, nil
}

// ---- instrumented widget -----------------------------------------------

type kid struct {
	col, row int
	w        *W
}

type W struct {
	name   string
	width  uint16
	height uint16
	kids   []kid
	log    *[]string
	// onCapture / onEvent may return a command
	onCapture func(ev vaxis.Event) vxfw.Command
	onEvent   func(ev vaxis.Event, phase vxfw.EventPhase) vxfw.Command
}

func evName(ev vaxis.Event) string {
	switch ev := ev.(type) {
	case vaxis.Key:
		return "Key(" + string(ev.Keycode) + ")"
	case vaxis.Mouse:
		return fmt.Sprintf("Mouse(%d,%d)", ev.Col, ev.Row)
	default:
		return fmt.Sprintf("%T", ev)
	}
}

func phaseName(p vxfw.EventPhase) string {
	return [...]string{"capture", "target", "bubble"}[p]
}

func (w *W) CaptureEvent(ev vaxis.Event) (vxfw.Command, error) {
	if _, ok := ev.(quitEv); ok {
		return vxfw.QuitCmd{}, nil
	}
	*w.log = append(*w.log, fmt.Sprintf("%s capture %s", w.name, evName(ev)))
	if w.onCapture != nil {
		return w.onCapture(ev), nil
	}
	return nil, nil
}

func (w *W) HandleEvent(ev vaxis.Event, phase vxfw.EventPhase) (vxfw.Command, error) {
	if _, ok := ev.(quitEv); ok {
		return vxfw.QuitCmd{}, nil
	}
	*w.log = append(*w.log, fmt.Sprintf("%s %s %s", w.name, phaseName(phase), evName(ev)))
	if w.onEvent != nil {
		return w.onEvent(ev, phase), nil
	}
	return nil, nil
}

func (w *W) Draw(ctx vxfw.DrawContext) (vxfw.Surface, error) {
	s := vxfw.NewSurface(w.width, w.height, w)
	for _, k := range w.kids {
		cs, err := k.w.Draw(ctx)
		if err != nil {
			return s, err
		}
		s.AddChild(k.col, k.row, cs)
	}
	return s, nil
}

type quitEv struct{}

// run starts the app with root, calls feed (from another goroutine) to post
// events, then posts quitEv and waits for Run to return.
func run(t *testing.T, root vxfw.Widget, feed func(app *vxfw.App)) {
	t.Helper()
	os.Unsetenv("COLORTERM")
	for _, k := range []string{"VAXIS_FORCE_LEGACY_SGR", "VAXIS_FORCE_WCWIDTH", "VAXIS_FORCE_UNICODE", "VAXIS_FORCE_XTWINOPS", "VAXIS_LOG_LEVEL"} {
		os.Unsetenv(k)
	}
	fc := newFakeConsole()
	app, err := vxfw.NewApp(vaxis.Options{WithConsole: fc})
	if err != nil {
		t.Fatal(err)
	}
	done := make(chan error, 1)
	go func() { done <- app.Run(root) }()
	time.Sleep(100 * time.Millisecond) // Init, first layout
	feed(app)
	time.Sleep(100 * time.Millisecond)
	app.PostEvent(quitEv{})
	select {
	case err := <-done:
		if err != nil {
			t.Fatal(err)
		}
	case <-time.After(5 * time.Second):
		t.Fatal("Run did not return")
	}
}

func count(log []string, s string) int {
	n := 0
	for _, l := range log {
		if l == s {
			n++
		}
	}
	return n
}
