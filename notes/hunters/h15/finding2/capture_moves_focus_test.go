package demo

import (
	"strings"
	"testing"

	"git.sr.ht/~rockorager/vaxis"
	"git.sr.ht/~rockorager/vaxis/vxfw"
)

// B: a capturing ancestor moves the focus (without consuming) while a key is
// being dispatched.
func TestCaptureMovesFocus(t *testing.T) {
	var log []string
	a := &W{name: "A", width: 5, height: 1, log: &log}
	b := &W{name: "B", width: 5, height: 1, log: &log}
	p1 := &W{name: "P1", width: 5, height: 1, log: &log, kids: []kid{{0, 0, a}}}
	p2 := &W{name: "P2", width: 5, height: 1, log: &log, kids: []kid{{0, 0, b}}}
	r := &W{name: "R", width: 40, height: 10, log: &log, kids: []kid{{0, 0, p1}, {0, 1, p2}}}
	r.onEvent = func(ev vaxis.Event, p vxfw.EventPhase) vxfw.Command {
		if _, ok := ev.(vxfw.Init); ok {
			return vxfw.BatchCmd{vxfw.FocusWidgetCmd(a), vxfw.RedrawCmd{}}
		}
		return nil
	}
	r.onCapture = func(ev vaxis.Event) vxfw.Command {
		if k, ok := ev.(vaxis.Key); ok && k.Keycode == '1' {
			return vxfw.FocusWidgetCmd(b)
		}
		return nil
	}
	run(t, r, func(app *vxfw.App) {
		app.PostEvent(vaxis.Key{Keycode: '1'})
	})
	var route []string
	for _, l := range log {
		if strings.HasSuffix(l, "Key(1)") {
			route = append(route, strings.TrimSuffix(l, " Key(1)"))
		}
	}
	got := strings.Join(route, ", ")
	t.Log("route of Key(1): " + got)
	oldRoute := "R capture, P1 capture, A capture, A target, P1 bubble, R bubble"
	newRoute := "R capture, P2 capture, B capture, B target, P2 bubble, R bubble"
	mixed := "R capture, B target, P2 bubble, R bubble" // re-route after the move
	if got != oldRoute && got != newRoute && got != mixed {
		t.Errorf("Key(1) was routed along neither the old nor the new focus path:\n got  %s\n old  %s\n new  %s", got, oldRoute, newRoute)
	}
}
