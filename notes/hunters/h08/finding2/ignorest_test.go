package demo

import (
	"fmt"
	"io"
	"testing"
	"time"

	"git.sr.ht/~rockorager/vaxis/ansi"
)

type step struct {
	data  []byte
	delay time.Duration // sleep before delivering
}

type stepReader struct {
	steps []step
	i     int
}

func (s *stepReader) Read(p []byte) (int, error) {
	if s.i >= len(s.steps) {
		return 0, io.EOF
	}
	st := s.steps[s.i]
	s.i++
	time.Sleep(st.delay)
	return copy(p, st.data), nil
}

func collect(t *testing.T, steps []step) []string {
	p := ansi.NewParser(&stepReader{steps: steps})
	var out []string
	to := time.After(5 * time.Second)
	for {
		select {
		case seq, ok := <-p.Next():
			if !ok {
				return out
			}
			out = append(out, fmt.Sprintf("%T(%v)", seq, seq))
		case <-to:
			t.Fatalf("hang; got %v", out)
		}
	}
}

// An ESC that ends an OSC string and is followed by silence is reported as the
// Escape key; what follows must then be parsed as from the ground state.
func TestEscThenSilenceAfterOSC(t *testing.T) {
	// reference: fresh parser, ESC \ from ground
	ref := collect(t, []step{
		{[]byte("\x1b\\"), 0},
	})
	out := collect(t, []step{
		{[]byte("\x1b]0;x\x1b"), 0},
		{[]byte("\x1b\\"), 40 * time.Millisecond},
	})
	t.Logf("ref: %v", ref)
	t.Logf("items: %v", out)
	// expected: OSC, Escape, then the same as ref
	if len(out) < 2 || out[1] != "ansi.C0(C0 0x1B)" {
		t.Fatalf("expected Escape as 2nd item: %v", out)
	}
	rest := out[2:]
	if fmt.Sprint(rest) != fmt.Sprint(ref) {
		t.Fatalf("after the Escape key, input is not parsed as from the ground state: got %v want %v", rest, ref)
	}
}
