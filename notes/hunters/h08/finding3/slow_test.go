package demo

import (
	"fmt"
	"io"
	"testing"
	"time"

	"git.sr.ht/~rockorager/vaxis/ansi"
)

// timedReader models a tty: chunk i becomes available at start+at[i]; a Read
// blocks until the next chunk is available, and returns at once if it already is.
type timedReader struct {
	start time.Time
	at    []time.Duration
	data  [][]byte
	i     int
}

func (r *timedReader) Read(p []byte) (int, error) {
	if r.i >= len(r.data) {
		return 0, io.EOF
	}
	if d := time.Until(r.start.Add(r.at[r.i])); d > 0 {
		time.Sleep(d)
	}
	n := copy(p, r.data[r.i])
	r.i++
	return n, nil
}

func runTimed(t *testing.T, consumerDelay time.Duration) []string {
	r := &timedReader{
		start: time.Now(),
		at:    []time.Duration{0, 100 * time.Millisecond, 200 * time.Millisecond},
		data:  [][]byte{[]byte("abcdef\x1b"), []byte("[A"), nil},
	}
	p := ansi.NewParser(r)
	var out []string
	for seq := range p.Next() {
		out = append(out, fmt.Sprintf("%T(%v)", seq, seq))
		time.Sleep(consumerDelay)
	}
	return out
}

// "abcdef ESC" arrives at t=0, then 100ms of silence on the wire, then "[A".
// The ESC is a lone ESC followed by silence (ten times the disambiguation
// delay), whatever the consumer's speed.
func TestLoneEscSlowConsumer(t *testing.T) {
	fast := runTimed(t, 0)
	slow := runTimed(t, 40*time.Millisecond)
	t.Logf("fast consumer: %v", fast)
	t.Logf("slow consumer: %v", slow)
	has := func(xs []string) bool {
		for _, s := range xs {
			if s == "ansi.C0(C0 0x1B)" {
				return true
			}
		}
		return false
	}
	if !has(fast) {
		t.Fatalf("fast consumer: Escape not reported")
	}
	if !has(slow) {
		t.Fatalf("slow consumer: lone ESC followed by 100ms of silence was not reported as Escape: %v", slow)
	}
}
