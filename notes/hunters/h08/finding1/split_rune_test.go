package demo

import (
	"fmt"
	"io"
	"testing"
	"time"

	"git.sr.ht/~rockorager/vaxis/ansi"
)

type step struct {
	data  []byte
	delay time.Duration // sleep before delivering
}

type stepReader struct {
	steps []step
	i     int
}

func (s *stepReader) Read(p []byte) (int, error) {
	if s.i >= len(s.steps) {
		return 0, io.EOF
	}
	st := s.steps[s.i]
	s.i++
	time.Sleep(st.delay)
	return copy(p, st.data), nil
}

func collect(t *testing.T, steps []step) []string {
	p := ansi.NewParser(&stepReader{steps: steps})
	var out []string
	to := time.After(5 * time.Second)
	for {
		select {
		case seq, ok := <-p.Next():
			if !ok {
				return out
			}
			out = append(out, fmt.Sprintf("%T(%v)", seq, seq))
		case <-to:
			t.Fatalf("hang; got %v", out)
		}
	}
}

// ESC and the first byte of a two-byte UTF-8 character arrive together (the
// ESC IS promptly followed by a further byte); the continuation byte arrives
// 40ms later.
func TestEscPromptlyFollowedBySplitRune(t *testing.T) {
	out := collect(t, []step{
		{[]byte{0x1b, 0xc3}, 0},
		{[]byte{0xa9}, 40 * time.Millisecond},
		{[]byte{}, 40 * time.Millisecond},
	})
	t.Logf("items: %v", out)
	for _, s := range out {
		if s == "ansi.C0(C0 0x1B)" {
			t.Fatalf("ESC promptly followed by a byte was reported as Escape key: %v", out)
		}
	}
}

