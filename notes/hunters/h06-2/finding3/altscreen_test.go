package finding3

import "testing"

// xterm: ?1049h saves the cursor, switches to the alternate screen and clears
// it; ?1049l switches back and restores the cursor - it does not touch the
// contents of the alternate screen (only ?1047l clears on leaving). ?47h then
// shows the alternate screen as it was left.
func TestAltContentSurvives1049l(t *testing.T) {
	for _, enter := range []string{"\x1b[?47h", "\x1b[?1047h"} {
		vt := newVT(4, 2)
		feed(vt, "\x1b[?1049hX\x1b[?1049l"+enter)
		st := vt.VerifSnapshot()
		if !st.Alt {
			t.Fatalf("not on the alternate screen")
		}
		if got := rowText(st, 0); got != "X   " {
			t.Errorf("after ?1049h X ?1049l %q: alternate screen row 0 = %q, want %q", enter, got, "X   ")
		}
	}
}

// the same with ?47h used to enter: ?1049l (FromAlternate + restore cursor)
// wipes what was drawn
func TestAltContentSurvives47Then1049l(t *testing.T) {
	vt := newVT(4, 2)
	feed(vt, "\x1b[?47hX\x1b[?1049l\x1b[?47h")
	st := vt.VerifSnapshot()
	if got := rowText(st, 0); got != "X   " {
		t.Errorf("alternate screen row 0 = %q, want %q", got, "X   ")
	}
}
