package finding1

import "git.sr.ht/~rockorager/vaxis/widgets/term"

type termCell = term.VerifCell
