package finding1

import "testing"

// U+2E3A TWO-EM DASH and U+2E3B THREE-EM DASH are printable characters that
// xterm (wcwidth) shows in one column; no VT/xterm-compatible terminal has
// cells wider than two columns.
func TestThreeEmDashOn2x2(t *testing.T) {
	vt := newVT(2, 2)
	feed(vt, "⸻")
	st := vt.VerifSnapshot()
	// reference: the character is in row 0, column 0, the cursor is at (0,1)
	if st.Active[0][0].Grapheme != "⸻" {
		t.Errorf("row 0 = %q, row 1 = %q: the first character printed on an empty 2x2 screen is not on the first line",
			rowText(st, 0), rowText(st, 1))
	}
	if st.Cursor.Row != 0 || st.Cursor.Col != 1 {
		t.Errorf("cursor at (%d,%d) lastCol=%v, want (0,1)", st.Cursor.Row, st.Cursor.Col, st.LastCol)
	}
}

func TestDashWidths(t *testing.T) {
	for _, s := range []string{"⸺", "⸻"} {
		vt := newVT(8, 2)
		feed(vt, s+"x")
		st := vt.VerifSnapshot()
		w := st.Active[0][0].Width
		if w > 2 {
			t.Errorf("%q: cell width %d (> 2), x printed at column %d, cursor col %d; reference: width 1, x at column 1, cursor col 2",
				s, w, indexOf(st.Active[0], "x"), st.Cursor.Col)
		}
	}
}

// A narrow character printed over the third column of the dash leaves the
// dash's head cell 4 wide: Draw skips the columns it covers, so the x is
// never shown.
func TestOverwriteInsideDash(t *testing.T) {
	vt := newVT(8, 2)
	feed(vt, "⸻\x1b[1;3Hx")
	st := vt.VerifSnapshot()
	head := st.Active[0][0]
	if head.Width > 2 && st.Active[0][2].Grapheme == "x" {
		t.Errorf("cell (0,0) = %q width %d still covers column 2, which holds %q",
			head.Grapheme, head.Width, st.Active[0][2].Grapheme)
	}
}

func indexOf(line []termCell, g string) int {
	for i, c := range line {
		if c.Grapheme == g {
			return i
		}
	}
	return -1
}
