package finding1

import (
	"os"
	"strings"

	"git.sr.ht/~rockorager/vaxis/ansi"
	"git.sr.ht/~rockorager/vaxis/widgets/term"
)

// feed parses child output with the library's own parser and applies every
// sequence through the PTY goroutine's update path
func feed(vt *term.Model, s string) {
	p := ansi.NewParser(strings.NewReader(s))
	for seq := range p.Next() {
		if _, ok := seq.(ansi.EOF); ok {
			return
		}
		vt.VerifFeed(seq)
	}
}

func newVT(cols, rows int) *term.Model {
	f, _ := os.OpenFile(os.DevNull, os.O_WRONLY, 0)
	return term.NewVerif(f, cols, rows)
}

func rowText(st term.VerifState, r int) string {
	var b strings.Builder
	for _, c := range st.Active[r] {
		if c.Grapheme == "" {
			b.WriteString(" ")
		} else {
			b.WriteString(c.Grapheme)
		}
	}
	return b.String()
}
