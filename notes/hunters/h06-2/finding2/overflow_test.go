package finding2

import "testing"

// 2^64+1 = 18446744073709551617: a parameter far beyond the screen size. A
// VT/xterm saturates numeric parameters (xterm at 65535), so CUD stops at the
// last line, CUF at the last column, and CUP goes to the bottom right corner.
func TestHugeParameterWraps(t *testing.T) {
	const huge = "18446744073709551617" // 2^64 + 1
	cases := []struct {
		name, in         string
		wantRow, wantCol int
	}{
		{"CUD", "\x1b[" + huge + "B", 4, 0},
		{"CUF", "\x1b[" + huge + "C", 0, 9},
		{"CUP", "\x1b[" + huge + ";" + huge + "H", 4, 9},
		{"VPA 2^64+3", "\x1b[18446744073709551619d", 4, 0},
	}
	for _, c := range cases {
		vt := newVT(10, 5)
		feed(vt, c.in)
		st := vt.VerifSnapshot()
		if st.Cursor.Row != c.wantRow || st.Cursor.Col != c.wantCol {
			t.Errorf("%s %q: cursor at (%d,%d), want (%d,%d)", c.name, c.in,
				st.Cursor.Row, st.Cursor.Col, c.wantRow, c.wantCol)
		}
	}
}

// ECH with 2^64+1 erases one cell instead of the rest of the line
func TestHugeECH(t *testing.T) {
	vt := newVT(10, 2)
	feed(vt, "abcdefghij\x1b[1;1H\x1b[18446744073709551617X")
	st := vt.VerifSnapshot()
	if got := rowText(st, 0); got != "          " {
		t.Errorf("row 0 = %q, want all blank", got)
	}
}
