package demo

import (
	"testing"

	"git.sr.ht/~rockorager/vaxis"
)

// A Vaxis application started against the embedded emulator (the emulator
// answers the start-up queries itself) learns "mode 2027 permanently set" and
// measures graphemes with uniseg: U+2E3B THREE-EM DASH is 4 columns to it
// (U+2E3A is 3). The emulator gives any printed character at most 2 columns.
// The renderer relies on the terminal's cursor advancing by the width it
// measured, so everything written after the dash on that row lands 2 columns
// too far left and the row's last columns are never painted.
func TestThreeEmDash(t *testing.T) {
	vx, c := startVaxis(t, 12, 2)
	defer vx.Close()
	for ev := range vx.Events() {
		if _, ok := ev.(vaxis.Resize); ok {
			break
		}
	}
	if !vx.CanUnicodeCore() {
		t.Fatal("expected the emulator's DECRPM 2027 reply to enable unicode widths")
	}
	c.takeLog() // drop the start-up traffic
	win := vx.Window()
	win.Clear()
	const dash = "⸻"
	w := vx.RenderedWidth(dash)
	t.Logf("Vaxis measures %q as %d columns", dash, w)
	// the application's screen: dash in column 0, 'x' 'y' 'z' right after it
	win.SetCell(0, 0, vaxis.Cell{Character: vaxis.Character{Grapheme: dash}})
	for i, g := range []string{"x", "y", "z"} {
		win.SetCell(w+i, 0, vaxis.Cell{Character: vaxis.Character{Grapheme: g}})
	}
	vx.Render()
	t.Logf("bytes: %q", c.takeLog())
	st := c.vt.VerifSnapshot()
	t.Logf("emulator row 0: %s", dumpRow(st, 0))
	for i, g := range []string{"x", "y", "z"} {
		if got := st.Active[0][w+i].Grapheme; got != g {
			t.Errorf("application cell (%d,0) is %q, emulator cell (%d,0) is %q", w+i, g, w+i, got)
		}
	}
	if got := st.Active[0][2].Grapheme; got != " " && got != "" {
		t.Errorf("application cell (2,0) is covered by the dash / blank, emulator shows %q there", got)
	}
}
