package demo

import (
	"testing"

	"git.sr.ht/~rockorager/vaxis"
)

func waitResize(vx *vaxis.Vaxis) {
	for ev := range vx.Events() {
		if _, ok := ev.(vaxis.Resize); ok {
			return
		}
	}
}

// The inner application shows its cursor in frame 1 and hides it in frame 2.
// The emulator follows (DECTCEM reset), but Model.Draw only ever calls
// win.ShowCursor: it never hides the host cursor, so the host window keeps
// showing a cursor the application no longer has.
func TestDrawKeepsHiddenCursorVisible(t *testing.T) {
	inner, ic := startVaxis(t, 6, 2)
	defer inner.Close()
	waitResize(inner)
	host, hc := startVaxis(t, 6, 2)
	defer host.Close()
	waitResize(host)
	ic.vt.Focus()

	inner.Window().Clear()
	inner.Window().Print(vaxis.Segment{Text: "ab"})
	inner.ShowCursor(2, 0, vaxis.CursorBlock)
	inner.Render()
	ic.vt.Draw(host.Window())
	host.Render()
	if st := hc.vt.VerifSnapshot(); !st.DECTCEM || st.Cursor.Col != 2 || st.Cursor.Row != 0 {
		t.Fatalf("frame 1: host cursor visible=%v at %d,%d, want visible at 2,0", st.DECTCEM, st.Cursor.Col, st.Cursor.Row)
	}

	inner.HideCursor()
	inner.Render()
	if st := ic.vt.VerifSnapshot(); st.DECTCEM {
		t.Fatal("frame 2: emulator still shows the cursor")
	}
	ic.vt.Draw(host.Window())
	host.Render()
	_, _, requested := host.VerifRequestedCursor()
	st := hc.vt.VerifSnapshot()
	if requested || st.DECTCEM {
		t.Errorf("frame 2: application and emulator have the cursor hidden, but after Draw the host window requests cursor visible=%v and the host terminal shows it=%v", requested, st.DECTCEM)
	}
}
