package demo

import (
	"bytes"
	"fmt"
	"os"
	"sync"
	"testing"

	"git.sr.ht/~rockorager/vaxis"
	"git.sr.ht/~rockorager/vaxis/ansi"
	"git.sr.ht/~rockorager/vaxis/widgets/term"
	"github.com/containerd/console"
)

// emuConsole is a console whose other end is the embedded terminal emulator:
// everything Vaxis writes is parsed and applied to the emulator, and the
// emulator's replies are what Vaxis reads.
type emuConsole struct {
	mu         sync.Mutex
	vt         *term.Model
	replyR     *os.File
	replyW     *os.File
	cols, rows int
	log        bytes.Buffer
}

func newEmuConsole(cols, rows int) *emuConsole {
	r, w, err := os.Pipe()
	if err != nil {
		panic(err)
	}
	c := &emuConsole{replyR: r, replyW: w, cols: cols, rows: rows}
	c.vt = term.NewVerif(w, cols, rows)
	return c
}

func (c *emuConsole) Read(p []byte) (int, error) { return c.replyR.Read(p) }
func (c *emuConsole) Write(p []byte) (int, error) {
	c.mu.Lock()
	defer c.mu.Unlock()
	c.log.Write(p)
	parser := ansi.NewParser(bytes.NewReader(append([]byte(nil), p...)))
	for seq := range parser.Next() {
		if _, ok := seq.(ansi.EOF); ok {
			break
		}
		c.vt.VerifFeed(seq)
	}
	return len(p), nil
}
func (c *emuConsole) takeLog() string {
	c.mu.Lock()
	defer c.mu.Unlock()
	s := c.log.String()
	c.log.Reset()
	return s
}
func (c *emuConsole) Close() error                 { c.replyW.Close(); return nil }
func (c *emuConsole) Fd() uintptr                  { return ^uintptr(0) }
func (c *emuConsole) Name() string                 { return "emu" }
func (c *emuConsole) Resize(console.WinSize) error { return nil }
func (c *emuConsole) ResizeFrom(console.Console) error {
	return nil
}
func (c *emuConsole) SetRaw() error      { return nil }
func (c *emuConsole) DisableEcho() error { return nil }
func (c *emuConsole) Reset() error       { return nil }
func (c *emuConsole) Size() (console.WinSize, error) {
	return console.WinSize{Height: uint16(c.rows), Width: uint16(c.cols)}, nil
}

func startVaxis(t *testing.T, cols, rows int) (*vaxis.Vaxis, *emuConsole) {
	for _, e := range []string{"COLORTERM", "VAXIS_FORCE_LEGACY_SGR", "VAXIS_FORCE_WCWIDTH", "VAXIS_FORCE_UNICODE", "VAXIS_FORCE_XTWINOPS", "VAXIS_DISABLE_XTWINOPS", "VAXIS_LOG_LEVEL", "TERM_PROGRAM"} {
		os.Unsetenv(e)
	}
	os.Setenv("TERM", "xterm")
	c := newEmuConsole(cols, rows)
	vx, err := vaxis.New(vaxis.Options{WithConsole: c, DisableMouse: true})
	if err != nil {
		t.Fatal(err)
	}
	return vx, c
}

func dumpRow(st term.VerifState, row int) string {
	s := ""
	for i, cl := range st.Active[row] {
		s += fmt.Sprintf("[%d:%q w%d]", i, cl.Grapheme, cl.Width)
	}
	return s
}
