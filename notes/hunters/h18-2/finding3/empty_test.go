package demo

import (
	"testing"

	"git.sr.ht/~rockorager/vaxis"
)

// A cell without text is the documented blank cell ("the zero value is
// rendered as an empty space"; Window.Fill(Cell{Style: ...}) paints
// backgrounds with it, and the renderer writes " " for it). The encoders write
// nothing for it, so the cell and its colours are gone after the round trip
// and every later cell moves one place to the left.
func TestBlankCells(t *testing.T) {
	red := vaxis.Style{Background: vaxis.IndexColor(1)}
	cells := []vaxis.Cell{
		{Style: red}, // blank cell on red
		{Style: red},
		{Character: vaxis.Character{Grapheme: "a"}},
	}
	vx := new(vaxis.Vaxis)
	enc := vaxis.EncodeCells(cells)
	got := vaxis.ParseStyledString(enc)
	if len(got) != 3 || got[0].Background != red.Background {
		t.Errorf("EncodeCells/ParseStyledString: %q -> %d cell(s) %+v; want 3 cells, the first two on red", enc, len(got), got)
	}
	enc2 := (&vaxis.StyledString{Cells: cells}).Encode()
	got2 := vx.NewStyledString(enc2, vaxis.Style{}).Cells
	if len(got2) != 3 || got2[0].Background != red.Background {
		t.Errorf("Encode/NewStyledString: %q -> %d cell(s) %+v; want 3 cells, the first two on red", enc2, len(got2), got2)
	}
}
