package demo

import (
	"runtime"
	"testing"

	"git.sr.ht/~rockorager/vaxis"
)

// ParseStyledString(EncodeCells(cells)) on a pure in-memory string depends on
// wall-clock time: the ansi parser it uses arms a 10ms "lone Escape key" timer
// at every ESC. On a busy single-CPU process the parser goroutine is preempted
// between arming and stopping that timer, the ESC is delivered as a key press
// and the rest of the SGR sequence ("[1m") comes back as text cells, with the
// attribute lost.
func TestRoundTripUnderLoad(t *testing.T) {
	runtime.GOMAXPROCS(1) // e.g. a one-CPU container
	stop := make(chan struct{})
	defer close(stop)
	for i := 0; i < 4; i++ { // CPU-bound background work of the application
		go func() {
			x := 0
			for {
				select {
				case <-stop:
					return
				default:
				}
				for j := 0; j < 1000; j++ {
					x += j
				}
			}
		}()
	}
	const n = 200000
	cells := make([]vaxis.Cell, n)
	for i := range cells {
		cells[i].Grapheme = "x"
		if i%2 == 0 {
			cells[i].Attribute = vaxis.AttrBold
		}
	}
	enc := vaxis.EncodeCells(cells)
	for round := 0; round < 20; round++ {
		got := vaxis.ParseStyledString(enc)
		if len(got) != n {
			for i, c := range got {
				if c.Grapheme != "x" {
					s := ""
					for _, d := range got[i:min(i+4, len(got))] {
						s += d.Grapheme
					}
					t.Fatalf("round %d: got %d cells, want %d; cells %d.. read %q: an SGR sequence came back as text",
						round, len(got), n, i, s)
				}
			}
			t.Fatalf("round %d: got %d cells, want %d", round, len(got), n)
		}
		for i, c := range got {
			if c.Attribute != cells[i].Attribute {
				t.Fatalf("round %d: cell %d attribute %v want %v", round, i, c.Attribute, cells[i].Attribute)
			}
		}
	}
	t.Log("not reproduced in 20 rounds (timing dependent); run the -tags verif variant")
}
