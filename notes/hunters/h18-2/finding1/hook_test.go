//go:build verif

package demo

import (
	"sync/atomic"
	"testing"
	"time"

	"git.sr.ht/~rockorager/vaxis"
	"git.sr.ht/~rockorager/vaxis/ansi"
)

// Deterministic variant: one 15ms stall of the parser goroutine (what a
// descheduling by the OS or the Go scheduler amounts to) right after it read
// the first ESC.
func TestRoundTripOneStall(t *testing.T) {
	var reads int32
	ansi.VerifHook = func(point string) {
		if point == "run.top" && atomic.AddInt32(&reads, 1) == 2 {
			time.Sleep(15 * time.Millisecond)
		}
	}
	defer func() { ansi.VerifHook = nil }()
	cells := []vaxis.Cell{{Character: vaxis.Character{Grapheme: "x"}, Style: vaxis.Style{Attribute: vaxis.AttrBold}}}
	enc := vaxis.EncodeCells(cells)
	got := vaxis.ParseStyledString(enc)
	if len(got) != 1 || got[0].Grapheme != "x" || got[0].Attribute != vaxis.AttrBold {
		s := ""
		for _, c := range got {
			s += c.Grapheme
		}
		t.Fatalf("encoded %q parsed back as %d cells with text %q, first attribute %v; want 1 bold cell \"x\"", enc, len(got), s, got[0].Attribute)
	}
}
