package demo

import (
	"testing"

	"git.sr.ht/~rockorager/vaxis"
)

// Neighbouring cells of the same style whose texts are each a complete
// grapheme cluster, but which together form ONE cluster, are written back to
// back by both encoders and come back as a single cell from both parsers.
// (The renderer keeps such cells apart since 969df78; the codecs do not.)
func TestNeighbouringClusters(t *testing.T) {
	pairs := [][2]string{
		{"ᄀ", "ᅡ"},         // Hangul L + V jamo
		{"\U0001F44D", "\U0001F3FD"}, // thumbs up + skin tone modifier
		{"\U0001F1FA", "\U0001F1F8"}, // two regional indicators
	}
	vx := new(vaxis.Vaxis)
	for _, p := range pairs {
		st := vaxis.Style{Foreground: vaxis.IndexColor(1)}
		cells := []vaxis.Cell{
			{Character: vaxis.Character{Grapheme: p[0]}, Style: st},
			{Character: vaxis.Character{Grapheme: p[1]}, Style: st},
		}
		enc := vaxis.EncodeCells(cells)
		got := vaxis.ParseStyledString(enc)
		if len(got) != 2 || got[0].Grapheme != p[0] || got[1].Grapheme != p[1] {
			t.Errorf("EncodeCells/ParseStyledString: cells %q -> %q -> %d cell(s), first %q", p, enc, len(got), got[0].Grapheme)
		}
		enc2 := (&vaxis.StyledString{Cells: cells}).Encode()
		got2 := vx.NewStyledString(enc2, vaxis.Style{}).Cells
		if len(got2) != 2 || got2[0].Grapheme != p[0] || got2[1].Grapheme != p[1] {
			t.Errorf("Encode/NewStyledString: cells %q -> %q -> %d cell(s), first %q", p, enc2, len(got2), got2[0].Grapheme)
		}
	}
}
