package demo

import (
	"testing"

	"git.sr.ht/~rockorager/vaxis"
)

// The zero Cell is documented as legal ("rendered as an empty space") and is
// what every untouched cell of a Window/screen row and the spacer behind a
// wide character holds. The renderer writes " " for it; both encoders write
// nothing, so the cell (and its style) vanishes from the round trip.
func TestZeroCellRoundTrip(t *testing.T) {
	vx := &vaxis.Vaxis{}
	red := vaxis.Style{Background: vaxis.IndexColor(1)}
	cells := []vaxis.Cell{
		{Character: vaxis.Character{Grapheme: "a", Width: 1}},
		{Style: red}, // blank cell with a red background
		{Character: vaxis.Character{Grapheme: "b", Width: 1}},
	}
	enc := vaxis.EncodeCells(cells)
	back := vaxis.ParseStyledString(enc)
	if len(back) != len(cells) {
		t.Errorf("EncodeCells = %q; ParseStyledString returned %d cells, want %d", enc, len(back), len(cells))
	}
	enc = (&vaxis.StyledString{Cells: cells}).Encode()
	back = vx.NewStyledString(enc, vaxis.Style{}).Cells
	if len(back) != len(cells) {
		t.Errorf("StyledString.Encode = %q; NewStyledString returned %d cells, want %d", enc, len(back), len(cells))
	}
	for _, c := range back {
		if c.Background == red.Background {
			return
		}
	}
	t.Errorf("no cell with the red background came back")
}
