package demo

import (
	"testing"

	"git.sr.ht/~rockorager/vaxis"
)

// StyledString.Encode writes OSC 8 for a cell that carries a hyperlink, but
// NewStyledString only recognises "ESC [" and turns every byte of the OSC 8
// sequence into a cell of its own: the round trip does not return the same
// graphemes (nor the same number of cells).
func TestStyledStringHyperlinkRoundTrip(t *testing.T) {
	vx := &vaxis.Vaxis{}
	cells := []vaxis.Cell{
		{Character: vaxis.Character{Grapheme: "a", Width: 1}, Style: vaxis.Style{Hyperlink: "http://x", Foreground: vaxis.IndexColor(1)}},
		{Character: vaxis.Character{Grapheme: "b", Width: 1}},
	}
	enc := (&vaxis.StyledString{Cells: cells}).Encode()
	back := vx.NewStyledString(enc, vaxis.Style{}).Cells
	var got []string
	for _, c := range back {
		got = append(got, c.Grapheme)
	}
	if len(back) != 2 || back[0].Grapheme != "a" || back[1].Grapheme != "b" {
		t.Fatalf("Encode() = %q\nNewStyledString graphemes = %q, want [\"a\" \"b\"]", enc, got)
	}
	if back[0].Foreground != vaxis.IndexColor(1) || back[1].Foreground != 0 {
		t.Fatalf("colours differ: %v %v", back[0].Style, back[1].Style)
	}
	// the sibling codec (EncodeCells + ParseStyledString) handles the same cells
	p := vaxis.ParseStyledString(vaxis.EncodeCells(cells))
	if len(p) != 2 {
		t.Fatalf("ParseStyledString: %d cells", len(p))
	}
}
