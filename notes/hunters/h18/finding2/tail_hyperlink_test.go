package demo

import (
	"os"
	"strings"
	"testing"

	"git.sr.ht/~rockorager/vaxis"
	"git.sr.ht/~rockorager/vaxis/ansi"
	"git.sr.ht/~rockorager/vaxis/widgets/term"
)

func feed(vt *term.Model, s string) {
	p := ansi.NewParser(strings.NewReader(s))
	for seq := range p.Next() {
		vt.VerifFeed(seq)
		p.Finish(seq)
	}
}

// An encoded string whose last cell carries a hyperlink ends with "ESC [ m"
// only; the OSC 8 it opened is never closed (the renderer does close it).
// Text that follows the encoded string in the library's own terminal
// emulator is therefore still styled (linked): styles are not reset at the
// end of the encoded string.
func TestEncodedStringLeavesHyperlinkOpen(t *testing.T) {
	cells := []vaxis.Cell{{
		Character: vaxis.Character{Grapheme: "a", Width: 1},
		Style:     vaxis.Style{Hyperlink: "http://x", Attribute: vaxis.AttrBold},
	}}
	for name, enc := range map[string]string{
		"EncodeCells":         vaxis.EncodeCells(cells),
		"StyledString.Encode": (&vaxis.StyledString{Cells: cells}).Encode(),
	} {
		f, _ := os.OpenFile(os.DevNull, os.O_WRONLY, 0)
		vt := term.NewVerif(f, 20, 3)
		feed(vt, enc+"Z")
		st := vt.VerifSnapshot()
		if st.Cursor.Pen != (vaxis.Style{}) {
			t.Errorf("%s = %q: emulator pen after the string is %+v, want the zero Style", name, enc, st.Cursor.Pen)
		}
		if z := st.Active[0][1]; z.Style != (vaxis.Style{}) {
			t.Errorf("%s: the cell %q printed after the string has style %+v", name, z.Grapheme, z.Style)
		}
	}
}
