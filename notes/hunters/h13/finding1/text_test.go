//go:build verif

package demo

import (
	"testing"

	"git.sr.ht/~rockorager/vaxis"
)

// A printable key whose Text is more than its first code point (a grapheme
// cluster typed or pasted on the host) must reach the child intact.
func TestTextOfPlainKeyIsForwarded(t *testing.T) {
	h := newHost(t)
	failed := false
	for _, tc := range []struct{ name, host, setup string }{
		{"typed e+U+0301", "é", ""},
		{"typed family emoji (ZWJ)", "\U0001F468‍\U0001F469‍\U0001F467", ""},
		{"typed flag", "\U0001F1E9\U0001F1EA", ""},
		{"bracketed paste of e+U+0301", "\x1b[200~é\x1b[201~", "\x1b[?2004h"},
		// kitty keyboard (report all keys + associated text): key code 'q', text '@' (AltGr+q, German layout)
		{"kitty AltGr+q -> @", "\x1b[113;;64u", ""},
		// kitty keyboard: text without a key (compose / IME): key code 0, text U+00E9
		{"kitty composed text, key 0", "\x1b[0;;233u", ""},
	} {
		orig := h.parse(tc.host)
		c := newChild(t, tc.setup)
		var wrote string
		for _, ev := range orig {
			wrote += c.send(ev)
		}
		back := h.parse(wrote)
		ok := len(orig) == len(back)
		for i := 0; ok && i < len(orig); i++ {
			ko, isKey := orig[i].(vaxis.Key)
			if !isKey {
				ok = orig[i] == back[i]
				continue
			}
			kb, _ := back[i].(vaxis.Key)
			ok = ko.Text == kb.Text
		}
		if !ok {
			failed = true
			t.Errorf("%s: host bytes %q -> events %#v\n   widget wrote %q to the child, which parses back as %#v", tc.name, tc.host, orig, wrote, back)
		}
	}
	if !failed {
		t.Log("all texts forwarded intact")
	}
}
