//go:build verif

package demo

import (
	"bytes"
	"fmt"
	"io"
	"os"
	"sync"
	"testing"
	"time"

	"git.sr.ht/~rockorager/vaxis"
	"git.sr.ht/~rockorager/vaxis/ansi"
	"git.sr.ht/~rockorager/vaxis/widgets/term"
	"github.com/containerd/console"
)

// ---- fake console -------------------------------------------------------
type fakeCon struct {
	mu  sync.Mutex
	inR *io.PipeReader
	inW *io.PipeWriter
	acc []byte
}

func newFakeCon() *fakeCon {
	r, w := io.Pipe()
	return &fakeCon{inR: r, inW: w}
}
func (f *fakeCon) Read(p []byte) (int, error) { return f.inR.Read(p) }
func (f *fakeCon) Write(p []byte) (int, error) {
	f.mu.Lock()
	f.acc = append(f.acc, p...)
	var replies []string
	for {
		i := bytes.Index(f.acc, []byte("\x1b[6n"))
		j := bytes.Index(f.acc, []byte("\x1b[c"))
		if i < 0 && j < 0 {
			break
		}
		if i >= 0 && (j < 0 || i < j) {
			replies = append(replies, "\x1b[1;1R")
			f.acc = f.acc[i+4:]
		} else {
			replies = append(replies, "\x1b[?62;22c")
			f.acc = f.acc[j+3:]
		}
	}
	if len(f.acc) > 16 {
		f.acc = f.acc[len(f.acc)-16:]
	}
	f.mu.Unlock()
	for _, r := range replies {
		r := r
		go f.inW.Write([]byte(r))
	}
	return len(p), nil
}
func (f *fakeCon) Close() error                     { f.inW.Close(); return nil }
func (f *fakeCon) Fd() uintptr                      { return ^uintptr(0) }
func (f *fakeCon) Name() string                     { return "fake" }
func (f *fakeCon) Resize(console.WinSize) error     { return nil }
func (f *fakeCon) ResizeFrom(console.Console) error { return nil }
func (f *fakeCon) SetRaw() error                    { return nil }
func (f *fakeCon) DisableEcho() error               { return nil }
func (f *fakeCon) Reset() error                     { return nil }
func (f *fakeCon) Size() (console.WinSize, error) {
	return console.WinSize{Height: 24, Width: 80}, nil
}

// ---- host: bytes -> events through a real Vaxis instance -----------------
type host struct {
	vx  *vaxis.Vaxis
	con *fakeCon
}

func newHost(t *testing.T) *host {
	for _, e := range []string{"COLORTERM", "VAXIS_FORCE_LEGACY_SGR", "VAXIS_FORCE_WCWIDTH", "VAXIS_FORCE_UNICODE", "VAXIS_GRAPHICS", "VAXIS_LOG_LEVEL"} {
		os.Unsetenv(e)
	}
	con := newFakeCon()
	vx, err := vaxis.New(vaxis.Options{WithConsole: con})
	if err != nil {
		t.Fatal(err)
	}
	return &host{vx: vx, con: con}
}

const sentinel = "\x1b[57363u" // Menu key

// parse feeds b to the Vaxis input pipeline and returns the key, paste and
// mouse events it yields.
func (h *host) parse(b string) []vaxis.Event {
	go h.con.inW.Write([]byte(b))
	// give the parser's ESC timeout a chance before the sentinel
	time.Sleep(30 * time.Millisecond)
	go h.con.inW.Write([]byte(sentinel))
	var out []vaxis.Event
	to := time.After(3 * time.Second)
	for {
		select {
		case ev := <-h.vx.Events():
			switch ev := ev.(type) {
			case vaxis.Key:
				if ev.Keycode == vaxis.KeyMenu {
					return out
				}
				out = append(out, ev)
			case vaxis.Mouse, vaxis.PasteStartEvent, vaxis.PasteEndEvent:
				out = append(out, ev)
			}
		case <-to:
			out = append(out, fmt.Errorf("timeout"))
			return out
		}
	}
}

// ---- child side: events -> bytes written by the term widget ---------------
type child struct {
	vt *term.Model
	r  *os.File
	w  *os.File
}

func newChild(t *testing.T, setup string) *child {
	r, w, err := os.Pipe()
	if err != nil {
		t.Fatal(err)
	}
	vt := term.NewVerif(w, 80, 24)
	c := &child{vt: vt, r: r, w: w}
	// apply child output (mode setting) through the real parser
	p := ansi.NewParser(bytes.NewReader([]byte(setup)))
	for seq := range p.Next() {
		if _, ok := seq.(ansi.EOF); ok {
			break
		}
		vt.VerifFeed(seq)
	}
	return c
}

func (c *child) send(ev vaxis.Event) string {
	c.vt.Update(ev)
	c.r.SetReadDeadline(time.Now().Add(20 * time.Millisecond))
	buf := make([]byte, 4096)
	n, _ := c.r.Read(buf)
	return string(buf[:n])
}
