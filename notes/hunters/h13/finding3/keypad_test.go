//go:build verif

package demo

import (
	"testing"

	"git.sr.ht/~rockorager/vaxis"
)

// Keypad keys as the host Vaxis reports them (kitty keyboard, which Vaxis
// turns on whenever the host terminal has it; the "disambiguate" level it asks
// for already reports the keypad with its own key codes).
func TestKeypadKeys(t *testing.T) {
	h := newHost(t)
	numeric := newChild(t, "\x1b>")       // DECKPNM
	app := newChild(t, "\x1b=")           // DECKPAM
	appCk := newChild(t, "\x1b=\x1b[?1h") // DECKPAM + DECCKM
	for _, tc := range []struct{ name, host string }{
		{"KP_Enter", "\x1b[57414u"},
		{"KP_Left", "\x1b[57417u"},
		{"KP_Up", "\x1b[57419u"},
		{"KP_Home", "\x1b[57423u"},
		{"KP_Page_Up", "\x1b[57421u"},
		{"KP_Delete", "\x1b[57426u"},
		{"KP_Begin", "\x1b[1E"},
		{"KP_5 (text 5)", "\x1b[57404;;53u"},
		{"KP_Add (text +)", "\x1b[57413;;43u"},
	} {
		evs := h.parse(tc.host)
		if len(evs) != 1 {
			t.Fatalf("%s: host events %v", tc.name, evs)
		}
		key := evs[0].(vaxis.Key)
		n, a, ac := numeric.send(key), app.send(key), appCk.send(key)
		back := h.parse(n)
		t.Logf("%-16s host event %-14s -> child gets %q (numeric keypad) %q (application keypad) %q (application keypad+cursor keys)", tc.name, key, n, a, ac)
		if n == "" || a == "" {
			t.Errorf("%s: nothing at all is written to the child (parsed back: %v); the key press is lost", tc.name, back)
		} else if n == a {
			t.Errorf("%s: DECKPAM does not select the application encoding: %q in both keypad modes", tc.name, a)
		}
	}
}
