//go:build verif

package demo

import (
	"testing"

	"git.sr.ht/~rockorager/vaxis"
)

// Alt chords that xterm's legacy encoding expresses as ESC + <byte(s) of the
// key> are written that way by the widget, but Vaxis's own input pipeline does
// not read them back as the chord.
func TestAltChordsRoundTrip(t *testing.T) {
	h := newHost(t)
	c := newChild(t, "")
	const A, C, S = vaxis.ModAlt, vaxis.ModCtrl, vaxis.ModShift
	_ = S
	for _, tc := range []struct {
		name string
		key  vaxis.Key
	}{
		{"Ctrl+Alt+a", vaxis.Key{Keycode: 'a', Modifiers: C | A}},
		{"Ctrl+Alt+x", vaxis.Key{Keycode: 'x', Modifiers: C | A}},
		{"Alt+Enter", vaxis.Key{Keycode: vaxis.KeyEnter, Modifiers: A}},
		{"Alt+Tab", vaxis.Key{Keycode: vaxis.KeyTab, Modifiers: A}},
		{"Alt+.", vaxis.Key{Keycode: '.', Modifiers: A}},
		{"Alt+Space", vaxis.Key{Keycode: ' ', Modifiers: A}},
		{"Alt+/", vaxis.Key{Keycode: '/', Modifiers: A}},
		{"Alt+é", vaxis.Key{Keycode: 'é', Modifiers: A}},
		// control: these work
		{"Alt+a", vaxis.Key{Keycode: 'a', Modifiers: A}},
		{"Alt+BackSpace", vaxis.Key{Keycode: vaxis.KeyBackspace, Modifiers: A}},
	} {
		wrote := c.send(tc.key)
		// the chord, then a plain 'x' typed afterwards
		back := h.parse(wrote)
		after := h.parse("x")
		var got []vaxis.Key
		for _, ev := range append(back, after...) {
			if k, ok := ev.(vaxis.Key); ok {
				got = append(got, k)
			}
		}
		ok := len(got) == 2 &&
			got[0].Keycode == tc.key.Keycode && got[0].Modifiers == tc.key.Modifiers &&
			got[1].Keycode == 'x' && got[1].Modifiers == 0
		if !ok {
			t.Errorf("%-14s widget wrote %q; Vaxis parses that, followed by a plain \"x\", as %v (want [%s x])", tc.name, wrote, got, tc.key)
		}
	}
}
